#!/usr/bin/env python3
"""Generates /verif/MANIFEST.json (single source of truth for the registry)."""
import json, subprocess, sys

hook_commits = subprocess.run(
    ["git", "-C", "/repo", "log", "--format=%H %s", "--grep=^verif hooks"],
    capture_output=True, text=True).stdout.strip().splitlines()
hook_commits = [l.split()[0] for l in hook_commits][::-1]

BASE = ("cd /repo && if cargo nextest --version >/dev/null 2>&1; then "
        "cargo nextest run --workspace --no-fail-fast --tool-config-file pb:/w/lib/nextest.toml "
        "--profile pb --test-threads 8 --offline; else "
        "cargo test --workspace --no-fail-fast --offline; fi")

TRUST = ("Trusted: the simulator itself (chooser, executor model in fidget_core::verif, oracles in /verif/sim), "
         "rustc, nalgebra/libm, the kernel's mmap. Sampling, not enumeration: a clean batch is evidence, not proof.")

CLAIMED = {
 "C06": dict(engine="E1-par-sim", ref="5/C06",
   text="Seeded search over workloads x simulated fork-join schedules: the real pixel::render runs on a simulated rayon executor (pool size, split tree = where fresh worker state begins, item interleaving all drawn from VERIF_SEED) and every pixel is compared with Context::eval at the pixel's sample position. Exploration is the right level because the property is a for-all over shapes/sizes/tile lists whose only nondeterministic dimension (which worker, with what cached simplification and recycled storage, renders which tile) is owned by the simulator and replayable; it cannot be exhausted.",
   technique="deterministic simulation (seeded fork-join executor replacing rayon) + brute-force per-pixel oracle"),
 "C07": dict(engine="E1-par-sim", ref="5/C07",
   text="Seeded search over 3-D workloads x simulated schedules: the real voxel::render on the simulated executor versus a brute-force heightmap (Context::eval on every voxel, plus the voxels just above the grid to recognise the excluded columns) and f64 dual gradients for normals.",
   technique="deterministic simulation (seeded fork-join executor replacing rayon) + brute-force heightmap/gradient oracle"),
 "C09": dict(engine="E1-par-sim", ref="5/C09",
   text="Seeded search over schedules and cancel instants: 2-D/3-D renders and octree meshing run on the simulated executor with pool sizes 1..=16, drawn split trees, item interleavings, stop-flag visibility and a cancel fired before the call / before executor item j / before poll j / never; results must equal the sequential run bit for bit, a pre-cancelled or post-cancel-polled run must return None, an uncancelled run must return Some. One pool execution in four is preemptive (segments on baton-passing OS threads, hand-over at sched points inside interpreter loops and before native calls), and one run in four is a shared-function simulation: mostly E5 (2-4 logical threads on clones of one function's tapes on the preemptive executor, each compared with its solo results), one in six of those E6, the ptrace step-sim (two REAL threads of a traced child process share one function; the simulator freezes thread A at a machine instruction of its choice - just before / just after each lock-prefixed instruction, xchg, fence or syscall A executes in the code under test, or a few instructions further - lets thread B run its whole operation list, resumes A; each thread must get its solo results; covers the native JIT code and synchronisation code that has no sched point; a share of the scenarios gets a deep pass that single-steps both threads, decodes every memory operand and also freezes A at its plain loads and stores to shared memory that B touches; a share of the trials adds a second, third and fourth preemption (A-B-A-B-A-B), and for compare-and-swap instructions of A a scout execution finds the instants at which B has restored the CAS word to the value A saw, where B is then frozen - the ABA schedules; five set-ups: shared tapes, per-thread tapes, shape-level first use, churning hoards of live tapes, small renders). One C06/C07/C09 run in four first makes an unrelated call (other shape, kind, size, tile list) on the run's thread, and the real single-thread rayon pool serves an unrelated call first one time in three, so that anything the library parks between calls is dirty. For small workloads (<= 40 polls) every cancel placement is enumerated for the sequential path and one pool. The thorough tier adds E4: shared interpreter tapes on 3 OS threads and the REAL rayon scheduler on tiny renders/meshes under Miri's seeded preemptive scheduler and data-race detector. A crash or a call that never returns is reported as a violation (child-process supervision, 30 s liveness watchdog).",
   technique="deterministic simulation: seeded schedule and cancel-instant search with sequential reference model"),

 "C10": dict(engine="E2-reuse-history", ref="5/C10",
   text="Seeded search over histories: 10-60 operations per run by 1-3 logical workers that keep their evaluator objects and workspaces and exchange recycled tape/function storage (including executable pages that must regrow, via the mmap granularity knob); after every operation the result is compared with the same call on fresh objects (reference model); ageing bursts repeat one call 20 / 300 / 65 700 times on the kept objects so that use counters cross their 8- and 16-bit boundaries. Exploration is the right level: the property quantifies over unbounded histories of unlike functions, which the simulator samples, replays and minimises.",
   technique="deterministic simulation of reuse histories (seeded op/provenance sequences) vs fresh-object reference model"),
 "C04": dict(engine="E2-reuse-history", ref="5/C04",
   text="Same history simulator weighted towards chains of nested simplifications (depth <= 6): traces come from VM and JIT point/interval evaluators used with reused evaluator objects, children are produced with reused workspaces, recycled storage, other register budgets and RenderHandle's trace-keyed cache; every child is compared bit for bit with its parent at the traced point / at sample points of the traced box under point, float-slice and grad-slice evaluation.",
   technique="deterministic simulation of simplification histories with parent-vs-child oracle on the traced domain"),
 "C14": dict(engine="E3-ident-sim", ref="5/C14",
   text="Each run is a fresh thread whose HashMap keys and Var ids come from a seeded getrandom seam, so which slot each variable lands in and in which order the maps are walked is drawn, replayable and shrinkable; every Shape evaluator entry point is compared with Context::eval on an explicit HashMap<Var,f32>, including missing/extra variables, transforms and post-simplification evaluation.",
   technique="deterministic simulation of process randomness (seeded getrandom seam: hash order, Var ids) + identity-binding oracle"),
 "C19": dict(engine="E3-ident-sim", ref="5/C19",
   text="Each run draws the hash keys (hence the iteration order of the caller's parameter map = Jacobian column packing) and a consistent well-conditioned sparse linear system with a drawn fixed subset; the real solver's result is checked for key set, residual, fixed-as-constant, fixed point and VM/JIT agreement.",
   technique="deterministic simulation of process randomness (seeded hash order = Jacobian packing) + residual/key-set oracle"),
}

PENDING = {}

NA = {
 "C01": "pure function of (expression DAG, input point, register budget): no schedule, clock, fault or history enters; reuse of evaluator objects is decided under C10",
 "C02": "JIT-vs-interpreter agreement and slice-bounds safety are pure functions of (tape, inputs, slice length); executable-memory reuse is decided under C10; preemption inside native code cannot be simulated deterministically here",
 "C03": "interval enclosure is a pure function of (program, box, point)",
 "C05": "derivatives are a pure function of (program, point, seed duals)",
 "C08": "mesh validity is a pure function of (shape, depth, transform, backend); its only schedule-dependent part (threaded octree build equals sequential build) is decided under C09",
 "C11": "totality over (program, finite input, malformed argument list); no clause concerns resource or syscall failure, nothing for a scheduler or fault injector to act on",
 "C12": "constructor rewrites, dedup, import/export and stack-safe traversal are pure functions of the construction sequence",
 "C13": "remapping is substitution: a pure function of (tree, remaps, point)",
 "C15": "bytecode is a pure function of the tape; the one hash map walked is re-sorted into a total order",
 "C16": "closed-form geometry of library shapes: pure in (parameters, point)",
 "C17": "script -> tree is a pure function of the script text",
 "C18": "Canvas2/Canvas3 are Copy value-type state machines driven by explicit calls; no thread, clock, I/O or shared state exists for a scheduler or fault injector to act on",
 "C20": "trace/bulk well-formedness is a pure function of (program, input); the history-dependent facet (stale arrays in a reused evaluator) is decided under C10",
}

def main():
    extra = json.load(open("/verif/tools/claimed_extra.json")) if len(sys.argv) > 1 else {}
    checks = []
    claimed = dict(CLAIMED)
    for pid in sorted(claimed):
        c = claimed[pid]
        checks.append({
            "property_id": pid,
            "quick_cmd": f"./run.sh check {pid} quick",
            "thorough_cmd": f"./run.sh check {pid} thorough",
            "evidence_file": f"/verif/evidence/{pid}.json",
            "replay_cmd_template": "./run.sh replay {path}",
            "engine": c["engine"],
            "level_claimed": {"category": "exploration", "text": c["text"], "design_ref": c["ref"]},
            "level_note": TRUST,
            "technique": c["technique"],
        })
    na = [{"property_id": k, "reason": v} for k, v in sorted(NA.items()) if k not in claimed]
    m = {
        "version": 1,
        "setup_cmd": "./run.sh setup",
        "hooks": {
            "guard": "--cfg fidget_verif",
            "enable": "RUSTFLAGS=\"--cfg fidget_verif\" (set in /verif/sim/.cargo/config.toml; /verif/sim path-depends on /repo/fidget-{core,jit,raster,mesh,solver})",
            "baseline_off_cmd": BASE,
            "source_commits": hook_commits,
            "add_only": True,
        },
        "engines": [
            {"name": "E1-par-sim", "path": "/verif/sim/src/e1.rs", "serves_properties": ["C06", "C07", "C09"],
             "kind_free_text": "real renderers/mesher on a seeded fork-join executor that replaces rayon's scheduler; cancel instants injected at poll/item boundaries"},
            {"name": "E2-reuse-history", "path": "/verif/sim/src/e2.rs", "serves_properties": ["C04", "C10"],
             "kind_free_text": "seeded histories of build/eval/simplify/recycle by logical workers exchanging dirty storage, compared op by op with a fresh-objects reference model"},
            {"name": "E5-shared-tape", "path": "/verif/sim/src/e5.rs", "serves_properties": ["C09"],
             "kind_free_text": "logical threads sharing one function's tapes on the preemptive executor (real OS threads, one running at a time, baton handed over at sched points chosen by the simulator)"},
            {"name": "E6-step-sim", "path": "/verif/sim/src/e6.rs", "serves_properties": ["C09"],
             "kind_free_text": "two real OS threads of a ptrace-traced child share one function; thread A is run to a breakpoint planted on the k-th synchronising machine instruction it executes (found by a discovery pass over the executable's lock/xchg/fence/syscall sites), frozen there, thread B runs to completion, A resumes; one (child seed, point) pair is one exactly repeatable execution (ASLR off, getrandom seam)"},
            {"name": "E4-miri", "path": "/verif/miri-shared", "serves_properties": ["C09"],
             "kind_free_text": "thorough tier only: shared VM tapes across 3 OS threads, and the real rayon scheduler driving tiny renders/meshes with a concurrent cancel, under Miri (-Zmiri-many-seeds, preemption, data-race detection)"},
            {"name": "E3-ident-sim", "path": "/verif/sim/src/e3.rs", "serves_properties": ["C14", "C19"],
             "kind_free_text": "process randomness (HashMap keys, Var ids) behind a getrandom seam; fresh thread per run"},
        ],
        "checks": checks,
        "not_applicable": na,
        "notes": "All checks: exit 0 held / 1 VIOLATION (replayed in a fresh process first) / 2 harness error. VERIF_SEED selects the batch; default 1. Known findings: /verif/known_findings.txt (seven fixed: entries - F1 F2 F4 F5 F6 F7 F9 and their commits in /repo - and one known: entry, F8: simplify_with::<2> panics in the register allocator). Seeded property-breaking changes and which check catches them: /verif/seeded, DESIGN.md 11.4. Self-tests (run.sh setup): in-process determinism and executor-model validation against real rayon; tools/determinism.sh is the cross-process proof.",
    }
    json.dump(m, open("/verif/MANIFEST.json", "w"), indent=1)
    print("wrote MANIFEST.json:", len(checks), "checks,", len(na), "n/a")

main()
