#!/bin/bash
# usage: try_patch_iso.sh <slot> <patch.diff> <prop> [tier]
# Like try_patch.sh, but never touches /repo: the patch is applied in the scratch worktree
# /tmp/iso-<slot>/wt and checked by a private copy of the simulator (/tmp/iso-<slot>/verif, path
# dependencies rewritten to that worktree), so several seeded changes can be tried at once.
# The copy is refreshed from /verif's working tree on every call; remove with: try_patch_iso.sh <slot> --clean
set -u
slot="$1"; base=/tmp/iso-$slot; wt=$base/wt; mv=$base/verif
if [ "${2:-}" = "--clean" ]; then
    git -C /repo worktree remove --force "$wt" 2>/dev/null
    rm -rf "$base"; git -C /repo worktree prune; exit 0
fi
patch="$(readlink -f "$2")"; prop="$3"; tier="${4:-quick}"
mkdir -p "$base"
if [ ! -d "$wt" ]; then git -C /repo worktree add -q --detach "$wt" HEAD || exit 2; fi
git -C "$wt" checkout -q --detach "$(git -C /repo rev-parse HEAD)" 2>/dev/null
git -C "$wt" checkout -- . || exit 2
if ! git -C "$wt" apply "$patch"; then echo "patch does not apply"; exit 2; fi
mkdir -p "$mv"
rsync -a --delete --exclude target --exclude build.log "${VERIF_SIM_SRC:-/verif/sim}/" "$mv/sim/"
sed -i "s#/repo/fidget#$wt/fidget#" "$mv/sim/Cargo.toml"
cp /verif/run.sh /verif/known_findings.txt "$mv/"
rm -rf "$mv/replays" "$mv/evidence"; mkdir -p "$mv/evidence"
(cd "$mv" && VERIF_JOBS="${VERIF_JOBS:-6}" ./run.sh check "$prop" "$tier") > "$base/out.txt" 2>&1
code=$?
git -C "$wt" checkout -- .
grep -E "^VIOLATION|clause=|^runs=|HARNESS|KNOWN" "$base/out.txt" | cut -c1-400
echo "exit=$code"
exit $code
