#!/bin/bash
# usage: confirm_seed.sh <worktree> <seed-id>
# Confirms a sub-agent's seeded defect in its scratch worktree and files it under /verif/seeded/<seed-id>/
set -u
wt="$1"; id="$2"
cd "$wt" || exit 2
export CARGO_NET_OFFLINE=true
out=/verif/seeded/$id
mkdir -p "$out"
log="$out/confirm.log"; : > "$log"
[ -f SEEDED/patch.diff ] || { echo "no patch"; exit 2; }
# normalise: make sure the change is applied
git apply --check -R SEEDED/patch.diff 2>/dev/null || git apply SEEDED/patch.diff || { echo "cannot apply patch"; exit 2; }
demo_target=$(ls fidget/tests/seeded_demo*.rs 2>/dev/null | head -1)
echo "== demo with change (must fail)" | tee -a "$log"
cargo test --offline -p fidget --test seeded_demo >>"$log" 2>&1; with=$?
echo "exit=$with" | tee -a "$log"
git apply -R SEEDED/patch.diff || exit 2
echo "== demo without change (must pass)" | tee -a "$log"
cargo test --offline -p fidget --test seeded_demo >>"$log" 2>&1; without=$?
echo "exit=$without" | tee -a "$log"
git apply SEEDED/patch.diff || exit 2
echo "== full suite with change (demo excluded)" | tee -a "$log"
cargo nextest run --workspace --no-fail-fast --tool-config-file pb:/w/lib/nextest.toml --profile pb --test-threads 8 --offline -E 'not binary(seeded_demo)' >>"$log" 2>&1
summary=$(grep -E "Summary" "$log" | tail -1)
fails=$(grep -E "^\s+FAIL " "$log" | sort -u | grep -v ssao_bias | head -5)
echo "$summary" | tee -a "$log"
echo "unexpected failures: [$fails]" | tee -a "$log"
cp SEEDED/patch.diff "$out/patch.diff"
cp SEEDED/demo.rs "$out/demo.rs" 2>/dev/null || cp "$demo_target" "$out/demo.rs"
cp SEEDED/meta.json "$out/meta.agent.json" 2>/dev/null
ok=no
if [ $with -ne 0 ] && [ $without -eq 0 ] && echo "$summary" | grep -q "564 passed" && [ -z "$fails" ]; then ok=yes; fi
echo "CONFIRMED=$ok (demo_with=$with demo_without=$without)" | tee -a "$log"
