#!/bin/bash
# Proves replay determinism: the same VERIF_SEED gives the same per-run event-log hashes
# in separate processes and at different worker counts.  usage: determinism.sh [runs] [seeds...]
set -u
ROOT="$(cd "$(dirname "${BASH_SOURCE[0]}")/.." && pwd)"
BIN="$ROOT/sim/target/release/fidget-sim"
runs="${1:-2000}"; shift || true
seeds="${*:-1 2 3}"
# always test the binary built from the current /repo tree
(cd "$ROOT/sim" && cargo build --release --offline >/dev/null 2>&1) || { echo "build failed"; exit 2; }
scratch="$ROOT/sim/target/determinism"; mkdir -p "$scratch"
cp "$ROOT/known_findings.txt" "$scratch/" 2>/dev/null
bad=0
for prop in C04 C06 C07 C09 C10 C14 C19; do
  for seed in $seeds; do
    ref=""
    for jobs in 16 1 5 16; do
      h=$(VERIF_ROOT="$scratch" VERIF_SEED=$seed VERIF_RUNS=$runs VERIF_JOBS=$jobs "$BIN" check $prop quick 2>&1 | grep -o "batch_hash=[0-9a-f]*")
      if [ -z "$ref" ]; then ref="$h"; fi
      if [ "$h" != "$ref" ] || [ -z "$h" ]; then echo "NONDETERMINISM $prop seed=$seed jobs=$jobs: $h vs $ref"; bad=1; fi
    done
    echo "$prop seed=$seed runs=$runs $ref (4 processes, jobs 16/1/5/16)"
  done
done
rm -rf "$scratch"
exit $bad
