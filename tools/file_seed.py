#!/usr/bin/env python3
"""file_seed.py <seed-id> <property> <caught:yes|no> <check-result-text> [note]
Writes /verif/seeded/<id>/meta.json from the agent's meta and my confirmation log."""
import json, sys, os, re
sid, prop, caught, result = sys.argv[1:5]
note = sys.argv[5] if len(sys.argv) > 5 else ""
d = f"/verif/seeded/{sid}"
agent = {}
try:
    agent = json.load(open(f"{d}/meta.agent.json"))
except Exception:
    pass
log = open(f"{d}/confirm.log").read() if os.path.exists(f"{d}/confirm.log") else ""
summary = re.findall(r"Summary.*", log)
meta = {
    "id": sid,
    "property": prop,
    "summary": agent.get("summary", ""),
    "needs_to_manifest": agent.get("needs_to_manifest", ""),
    "files_changed": agent.get("files_changed", []),
    "origin": "fresh sub-agent given only the property text and a scratch worktree of /repo (nothing from /verif)",
    "confirmed_by_me": {
        "what_i_ran": [
            "tools/confirm_seed.sh <worktree> <id>: demo with the change (must fail), demo with the change reverted (must pass), full nextest workspace suite with the change (demo excluded)",
            f"tools/try_patch.sh seeded/{sid}/patch.diff {prop} quick (git -C /repo apply, ./run.sh check {prop} quick, git -C /repo checkout -- .) or tools/try_patch_iso.sh <slot> ... (the same check run by a private copy of the simulator against a scratch worktree with the patch applied)",
        ],
        "demo_fails_with_change": "demo_with=101" in log or "demo_with=1" in log,
        "demo_passes_without_change": "demo_without=0" in log,
        "suite_with_change": summary[-1].strip() if summary else "",
        "confirmed": "CONFIRMED=yes" in log,
    },
    "detected_by_check": caught == "yes",
    "check_result": result,
    "note": note,
    "demo_placement": "fidget/tests/seeded_demo.rs; run: cargo test --offline -p fidget --test seeded_demo",
}
json.dump(meta, open(f"{d}/meta.json", "w"), indent=1)
print("wrote", f"{d}/meta.json")
