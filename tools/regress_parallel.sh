#!/bin/bash
# Re-runs every confirmed seeded change (and own mutants) against the current checks, several at
# a time, each in its own scratch worktree + private simulator copy (tools/try_patch_iso.sh), and
# writes /verif/seeded/SUMMARY.md.  usage: regress_parallel.sh [slots=4] [jobs per slot=4]
set -u
cd /verif
slots="${1:-4}"; jobs="${2:-4}"
tmp=$(mktemp -d)
ls -d seeded/*/ | while read d; do
  id=$(basename $d); [ -f $d/patch.diff ] && [ -f $d/meta.json ] || continue
  prop=$(python3 -c "import json;print(json.load(open('$d/meta.json'))['property'])")
  echo "$id $prop /verif/$d/patch.diff"
done > $tmp/list
for f in selfmut/m*.diff; do
  id=$(basename $f .diff); prop=$(echo $id | grep -o "c[0-9][0-9]" | head -1 | tr c C)
  echo "$id(own) $prop /verif/$f"
done >> $tmp/list
worker() {
  k=$1
  awk -v k=$k -v n=$slots 'NR % n == k % n' $tmp/list | while read id prop patch; do
    r=$(VERIF_JOBS=$jobs ./tools/try_patch_iso.sh r$k "$patch" $prop quick 2>&1)
    cand=$(grep -o "violation candidate: run=[0-9]* property=[A-Z0-9]* clause=[a-z_0-9]*" /tmp/iso-r$k/out.txt | head -1)
    crash=$(grep -o "clause=process_crash" /tmp/iso-r$k/out.txt | head -1)
    code=$(echo "$r" | grep -o "exit=[0-9]*" | tail -1)
    napply=$(echo "$r" | grep -c "patch does not apply")
    [ "$napply" -gt 0 ] && cand="PATCH DOES NOT APPLY"
    echo "| $id | $prop | ${cand:-${crash:-no violation}} ($code) |" >> $tmp/out.$k
    echo "$id $prop ${cand:-${crash:-none}} $code"
  done
}
for k in $(seq 1 $slots); do worker $k & done
wait
out=seeded/SUMMARY.md
echo "| change | property | result at seed 1, quick tier |" > $out
echo "|---|---|---|" >> $out
cat $tmp/out.* | sort >> $out
for k in $(seq 1 $slots); do ./tools/try_patch_iso.sh r$k --clean; done
rm -rf $tmp
