#!/bin/bash
# usage: process_seed.sh <worktree> <seed-id> <prop> <slot>
# confirm a sub-agent's seeded change (tools/confirm_seed.sh) and run the property's quick check
# against it in an isolated slot (tools/try_patch_iso.sh); prints both verdicts.
set -u
wt="$1"; id="$2"; prop="$3"; slot="$4"
/verif/tools/confirm_seed.sh "$wt" "$id" | tail -2
VERIF_JOBS="${VERIF_JOBS:-8}" /verif/tools/try_patch_iso.sh "$slot" "/verif/seeded/$id/patch.diff" "$prop" quick 2>&1 | tail -6
grep -o "violation candidate: run=[0-9]* property=[A-Z0-9]* clause=[a-z_0-9]*" /tmp/iso-$slot/out.txt | head -2
