#!/bin/bash
# Re-runs every confirmed seeded change (and own mutants) against the current checks and
# writes /verif/seeded/SUMMARY.md.  Uses /repo (applies and reverts each patch).
set -u
cd /verif
out=seeded/SUMMARY.md
echo "| change | property | result at seed 1, quick tier |" > $out
echo "|---|---|---|" >> $out
for d in seeded/*/; do
  id=$(basename $d)
  [ -f $d/patch.diff ] || continue
  prop=$(python3 -c "import json;print(json.load(open('$d/meta.json'))['property'])")
  r=$(VERIF_JOBS=${VERIF_JOBS:-6} ./tools/try_patch.sh /verif/$d/patch.diff $prop quick 2>&1)
  cand=$(echo "$r" | grep -o "violation candidate: run=[0-9]* property=[A-Z0-9]* clause=[a-z_0-9]*" | head -1)
  crash=$(echo "$r" | grep -o "clause=process_crash" | head -1)
  code=$(echo "$r" | grep -o "exit=[0-9]*" | tail -1)
  echo "| $id | $prop | ${cand:-${crash:-no violation}} ($code) |" >> $out
  echo "$id $prop ${cand:-${crash:-none}} $code"
done
for f in selfmut/m*.diff; do
  id=$(basename $f .diff)
  prop=$(echo $id | grep -o "c[0-9][0-9]" | head -1 | tr c C)
  r=$(VERIF_JOBS=${VERIF_JOBS:-6} ./tools/try_patch.sh /verif/$f $prop quick 2>&1)
  cand=$(echo "$r" | grep -o "violation candidate: run=[0-9]* property=[A-Z0-9]* clause=[a-z_0-9]*" | head -1)
  crash=$(echo "$r" | grep -o "clause=process_crash" | head -1)
  code=$(echo "$r" | grep -o "exit=[0-9]*" | tail -1)
  echo "| $id (own) | $prop | ${cand:-${crash:-no violation}} ($code) |" >> $out
  echo "$id $prop ${cand:-${crash:-none}} $code"
done
rm -f replays/*.json
