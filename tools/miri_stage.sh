#!/bin/bash
# E4: shared interpreter tapes under Miri's seeded preemptive scheduler (C09, thorough tier).
# usage: miri_stage.sh run | replay <seed>
# exit 0 ok, 1 violation (prints VIOLATION line), 2 harness error
set -u
ROOT="$(cd "$(dirname "${BASH_SOURCE[0]}")/.." && pwd)"
cd "$ROOT/miri-shared" || exit 2
export CARGO_NET_OFFLINE=true
FLAGS="-Zmiri-preemption-rate=0.1 -Zmiri-deterministic-floats"
mode="${1:-run}"
if [ "$mode" = "replay" ]; then
    seed="${2:?seed}"
    MIRIFLAGS="-Zmiri-seed=$seed $FLAGS" cargo +nightly miri run --offline 2>&1 | tail -n 30
    if [ "${PIPESTATUS[0]}" -ne 0 ]; then
        echo "REPRODUCED property=C09 clause=miri_shared_tape seed=$seed"
        exit 1
    fi
    echo "NOT-REPRODUCED property=C09 clause=miri_shared_tape seed=$seed"
    exit 0
fi
vs="${VERIF_SEED:-1}"
n="${VERIF_MIRI_SEEDS:-64}"
start=$(( (vs * 1000) % 1000000 ))
end=$(( start + n ))
t0=$(date +%s)
out="$ROOT/miri-shared/miri.log"
MIRIFLAGS="-Zmiri-many-seeds=$start..$end $FLAGS" cargo +nightly miri run --offline >"$out" 2>&1
code=$?
t1=$(date +%s)
ok=$(grep -c "^vm3: ok" "$out")
if [ $code -ne 0 ]; then
    seed=$(grep -o "FAILING SEED: [0-9]*" "$out" | head -1 | grep -o "[0-9]*")
    if [ -z "$seed" ]; then
        tail -n 30 "$out" >&2
        echo "HARNESS-ERROR: miri stage failed without a failing seed" >&2
        exit 2
    fi
    mkdir -p "$ROOT/replays"
    f="$ROOT/replays/C09-miri-seed-$seed.json"
    detail=$(grep -m1 -E "panicked|Undefined Behavior|Data race|error:" "$out" | head -c 300 | tr '"' "'")
    printf '{"property":"C09","clause":"miri_shared_tape","mode":"miri","miri_seed":%s,"detail":"%s","replay_cmd":"/verif/run.sh replay %s"}\n' "$seed" "$detail" "$f" > "$f"
    echo "VIOLATION property=C09 replay=$f"
    echo "  clause=miri_shared_tape miri seed $seed: $detail"
    exit 1
fi
echo "E4 miri: seeds $start..$end all ok ($ok schedules, $((t1 - t0)) s)"
# merge into the evidence file written by the simulator
python3 - "$ROOT/evidence/C09.json" "$start" "$end" "$ok" "$((t1 - t0))" <<'PY'
import json, sys
p, start, end, ok, secs = sys.argv[1], int(sys.argv[2]), int(sys.argv[3]), int(sys.argv[4]), int(sys.argv[5])
try:
    j = json.load(open(p))
except Exception:
    sys.exit(0)
j["coverage"]["e4_miri_shared_tape"] = {
    "what": "3 OS threads share one interpreter tape (VM<255> and VM<3>): point, interval, float-slice, grad-slice evaluation, concurrent simplify + recycle, cancel token set/polled across threads; each thread compared with its solo results; Miri data-race detector on",
    "miri_seeds": [start, end],
    "schedules_completed_ok": ok,
    "wall_s": secs,
    "flags": "-Zmiri-preemption-rate=0.1 -Zmiri-deterministic-floats",
}
json.dump(j, open(p, "w"), indent=2)
PY
exit 0
