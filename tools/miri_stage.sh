#!/bin/bash
# E4: preemptive schedules under Miri (C09, thorough tier).
#   phase "tapes": 3 OS threads share one interpreter tape (all evaluator kinds, concurrent
#                  simplify/recycle, cancel token) -- Miri data-race detector + aliasing model on
#   phase "rayon": the REAL rayon scheduler drives the real 2-D/3-D renderers and the mesher on
#                  tiny workloads, a second thread cancels at a schedule-dependent instant
# usage: miri_stage.sh run | replay <phase> <seed>
# exit 0 ok, 1 violation (prints VIOLATION line), 2 harness error
set -u
ROOT="$(cd "$(dirname "${BASH_SOURCE[0]}")/.." && pwd)"
cd "$ROOT/miri-shared" || exit 2
export CARGO_NET_OFFLINE=true
BASE="-Zmiri-preemption-rate=0.1 -Zmiri-deterministic-floats"
# rayon/crossbeam use integer-pointer casts and leak their pool; nalgebra's insert_row trips
# the experimental Stacked Borrows model -- none of which is what this stage decides
RAYON="$BASE -Zmiri-ignore-leaks -Zmiri-disable-stacked-borrows -Zmiri-permissive-provenance"
flags_for() { if [ "$1" = "rayon" ]; then echo "$RAYON"; else echo "$BASE"; fi; }
mode="${1:-run}"
if [ "$mode" = "replay" ]; then
    phase="${2:?phase}"; seed="${3:?seed}"
    MIRIFLAGS="-Zmiri-seed=$seed $(flags_for $phase)" cargo +nightly miri run --offline -- "$phase" 2>&1 | tail -n 30
    if [ "${PIPESTATUS[0]}" -ne 0 ]; then
        echo "REPRODUCED property=C09 clause=miri_$phase seed=$seed"
        exit 1
    fi
    echo "NOT-REPRODUCED property=C09 clause=miri_$phase seed=$seed"
    exit 0
fi
vs="${VERIF_SEED:-1}"
start=$(( (vs * 1000) % 1000000 ))
summary=""
for phase in tapes rayon; do
    if [ "$phase" = "tapes" ]; then n="${VERIF_MIRI_SEEDS:-64}"; else n="${VERIF_MIRI_RAYON_SEEDS:-16}"; fi
    [ "$n" -gt 0 ] || continue
    end=$(( start + n ))
    t0=$(date +%s)
    out="$ROOT/miri-shared/miri-$phase.log"
    MIRIFLAGS="-Zmiri-many-seeds=$start..$end $(flags_for $phase)" cargo +nightly miri run --offline -- "$phase" >"$out" 2>&1
    code=$?
    t1=$(date +%s)
    if [ "$phase" = "tapes" ]; then ok=$(grep -c "^vm3: ok" "$out"); else ok=$(grep -c "^rayon: ok" "$out"); fi
    if [ $code -ne 0 ]; then
        seed=$(grep -o "FAILING SEED: [0-9]*" "$out" | head -1 | grep -o "[0-9]*")
        if [ -z "$seed" ]; then
            tail -n 30 "$out" >&2
            echo "HARNESS-ERROR: miri stage ($phase) failed without a failing seed" >&2
            exit 2
        fi
        mkdir -p "$ROOT/replays"
        f="$ROOT/replays/C09-miri-$phase-seed-$seed.json"
        detail=$(grep -m1 -E "panicked|Undefined Behavior|Data race|error:" "$out" | head -c 300 | tr '"' "'")
        printf '{"property":"C09","clause":"miri_%s","mode":"miri","miri_phase":"%s","miri_seed":%s,"detail":"%s","replay_cmd":"/verif/run.sh replay %s"}\n' "$phase" "$phase" "$seed" "$detail" "$f" > "$f"
        echo "VIOLATION property=C09 replay=$f"
        echo "  clause=miri_$phase miri seed $seed: $detail"
        exit 1
    fi
    echo "E4 miri $phase: seeds $start..$end all ok ($ok schedules, $((t1 - t0)) s)"
    summary="$summary $phase:$start:$end:$ok:$((t1 - t0))"
done
# merge into the evidence file written by the simulator
python3 - "$ROOT/evidence/C09.json" $summary <<'PY'
import json, sys
p = sys.argv[1]
try:
    j = json.load(open(p))
except Exception:
    sys.exit(0)
what = {
    "tapes": "3 OS threads share one interpreter tape (VM<255> and VM<3>): point, interval, float-slice, grad-slice evaluation, concurrent simplify + recycle, cancel token set/polled across threads; each thread compared with its solo results; plus a simplify storm (3 threads x 10 rounds, two alternating traces on one shared tape) and a mini storm (4 threads x 24 rounds on min(x,y), where nearly all time is spent entering and leaving simplify) whose every child is checked against the trace it was asked for; plus a shape-level first-use scenario (3 threads wrap a freshly built, never used function in Shape, build their own four shape tapes and evaluate them; solo reference from an independent instance); Miri data-race detector and aliasing model on",
    "rayon": "REAL rayon pools (2 and 3 threads, not the simulated executor) drive the real pixel::render, voxel::render and Octree::build on tiny workloads; results compared with the sequential path; a second thread sets the cancel token at a schedule-dependent instant (result must be None or the complete one); pre-cancelled run must be None",
}
out = {}
for item in sys.argv[2:]:
    phase, start, end, ok, secs = item.split(":")
    out[phase] = {"what": what[phase], "miri_seeds": [int(start), int(end)],
                  "schedules_completed_ok": int(ok), "wall_s": int(secs)}
j["coverage"]["e4_miri"] = out
json.dump(j, open(p, "w"), indent=2)
PY
exit 0
