#!/usr/bin/env python3
"""Systematic hand-written mutation batch, isolated from /repo and /verif:
   - the mutation is applied in the scratch worktree /tmp/wt-mut
   - gate: the affected crates' existing tests must still pass there
   - survivors are run against a private copy of the simulator (/tmp/mut-verif/sim, path deps -> /tmp/wt-mut)
   usage: mutation_batch.py [name-filter]   -> appends to /verif/selfmut/BATCH_RESULTS.md
"""
import subprocess, sys, os, shutil, re, json, time
WT="/tmp/wt-mut"; MV="/tmp/mut-verif"
def sh(cmd, cwd=None, timeout=3600):
    return subprocess.run(cmd, shell=True, cwd=cwd, capture_output=True, text=True, timeout=timeout)
M=[
 # (name, file, old, new, gate crates, properties)
 ("b01_tilesizes_le", "fidget-raster/src/lib.rs", ".position(|t| *t < max_size)", ".position(|t| *t <= max_size)", "fidget-raster fidget", ["C06","C07"]),
 ("b02_pixel_tile_interval_short", "fidget-raster/src/pixel.rs", "let x = Interval::new(base.x, base.x + tile_size as f32);", "let x = Interval::new(base.x, base.x + tile_size as f32 - 1.0);", "fidget-raster fidget", ["C06"]),
 ("b03_pixel_bounds_le", "fidget-raster/src/pixel.rs", "if y < height && x < width {", "if y <= height && x < width {", "fidget-raster fidget", ["C06"]),
 ("b04_pixel_maxsize_min", "fidget-raster/src/pixel.rs", "let max_size = render_config.width().max(render_config.height()) as usize;", "let max_size = render_config.width().min(render_config.height()) as usize;", "fidget-raster fidget", ["C06"]),
 ("b05_voxel_fillz", "fidget-raster/src/voxel.rs", "let fill_z = (tile.corner[2] + tile_size + 1).try_into().unwrap();", "let fill_z = (tile.corner[2] + tile_size).try_into().unwrap();", "fidget-raster fidget", ["C07"]),
 ("b06_voxel_root_order", "fidget-raster/src/voxel.rs", "for k in (0..self.image_size[2].div_ceil(root_tile_size as u32)).rev() {", "for k in 0..self.image_size[2].div_ceil(root_tile_size as u32) {", "fidget-raster fidget", ["C07"]),
 ("b07_voxel_grad_pos", "fidget-raster/src/voxel.rs", "Grad::new((tile.corner[2] + k) as f32, 0.0, 0.0, 1.0);", "Grad::new((tile.corner[2] + k + 1) as f32, 0.0, 0.0, 1.0);", "fidget-raster fidget", ["C07"]),
 ("b08_voxel_sub_order", "fidget-raster/src/voxel.rs", "for k in (0..n).rev() {\n                        self.render_tile_recurse(", "for k in 0..n {\n                        self.render_tile_recurse(", "fidget-raster fidget", ["C07"]),
 ("b09_voxel_maxsize_depth", "fidget-raster/src/voxel.rs", "let max_size = render_config.width().max(render_config.height()) as usize;", "let max_size = render_config.width().max(render_config.image_size.depth()) as usize;", "fidget-raster fidget", ["C07"]),
 ("b10_octree_fixup_order", "fidget-mesh/src/octree.rs", "for (cell, index) in fixup.into_iter().rev() {", "for (cell, index) in fixup.into_iter() {", "fidget-mesh fidget", ["C09"]),
 ("b11_octree_hermite_dropped", "fidget-mesh/src/octree.rs", "            hermites[i][j as usize] = o.hermite;\n", "            let _ = (i, j);\n", "fidget-mesh fidget", ["C09"]),
 ("b12_octree_cell_offset_next", "fidget-mesh/src/octree.rs", "index: index + cell_offsets[i],", "index: index + cell_offsets[(i + 1).min(cell_offsets.len() - 1)],", "fidget-mesh fidget", ["C09"]),
 ("b13_rh_recycle_order", "fidget-core/src/render/mod.rs", "            if next.size() >= self.shape.size() {", "            if next.size() > self.shape.size() {", "fidget-core fidget-raster fidget-mesh fidget", ["C04","C06"]),
 ("b14_varmap_len", "fidget-core/src/var/mod.rs", "        let next = self.len();\n        match v {", "        let next = self.v.len() + self.x.is_some() as usize + self.y.is_some() as usize;\n        match v {", "fidget-core fidget", ["C14"]),
 ("b15_shape_bulk_scratch_min", "fidget-core/src/shape/mod.rs", "self.scratch.resize_with(vs.len().max(1), Vec::new);", "self.scratch.resize_with(vs.len().max(2), Vec::new);", "fidget-core fidget", ["C14","C10"]),
 ("b16_interval_transform_row", "fidget-core/src/shape/mod.rs", "(out[0] / out[3], out[1] / out[3], out[2] / out[3])\n    }\n}\n\nimpl Transformable for Grad", "(out[0] / out[3], out[1] / out[3], out[2])\n    }\n}\n\nimpl Transformable for Grad", "fidget-core fidget-raster fidget", ["C14","C07"]),
 ("b17_solver_seed_swap", "fidget-solver/src/lib.rs", "if j * 3 + 1 == gi { 1.0 } else { 0.0 },\n                                if j * 3 + 2 == gi { 1.0 } else { 0.0 },", "if j * 3 + 2 == gi { 1.0 } else { 0.0 },\n                                if j * 3 + 1 == gi { 1.0 } else { 0.0 },", "fidget-solver", ["C19"]),
 ("b18_solver_fixed_zero_grad", "fidget-solver/src/lib.rs", "slice.fill(Grad::new(*f, 0.0, 0.0, 0.0));", "slice.fill(Grad::new(*f, 0.0, 0.0, 1.0));", "fidget-solver", ["C19"]),
 ("b19_solver_varcount", "fidget-solver/src/lib.rs", ".max(grad_tapes.iter().map(|t| t.vars().len()).max().unwrap_or(0));", ".max(grad_tapes.iter().map(|t| t.vars().len()).min().unwrap_or(0));", "fidget-solver", ["C19"]),
 ("b20_vm_choices_not_cleared", "fidget-core/src/vm/mod.rs", "self.choices.fill(Choice::Unknown);", "", "fidget-core fidget", ["C10"]),
 ("b21_jit_bulk_small_le", "fidget-jit/src/lib.rs", "if n < T::SIMD_SIZE {\n            assert!", "if n <= T::SIMD_SIZE {\n            assert!", "fidget-jit fidget", ["C10","C06"]),
 ("b22_jit_storage_reuse_rule", "fidget-jit/src/lib.rs", "if size_estimate > 2 * s.capacity() {", "if size_estimate > 2 * s.capacity() || s.capacity() == 0 {", "fidget-jit fidget", ["C10"]),
 ("b23_workspace_reset_bindings", "fidget-core/src/vm/data.rs", "self.bind.fill(u32::MAX);", "", "fidget-core fidget", ["C10","C04"]),
 ("b24_simplify_both_count", "fidget-core/src/vm/data.rs", "                        Choice::Both => {\n                            choice_count += 1;\n                            *index = new_index;\n                            *lhs = workspace.get_or_insert_active(*lhs);", "                        Choice::Both => {\n                            *index = new_index;\n                            *lhs = workspace.get_or_insert_active(*lhs);", "fidget-core fidget-jit fidget", ["C04"]),
 ("b25_cancel_check_inverted_seq", "fidget-raster/src/lib.rs", "                .map(|tile| {\n                    if eval_config.is_cancelled() {", "                .map(|tile| {\n                    if eval_config.is_cancelled() && tile.corner.x > 0 {", "fidget-raster fidget", ["C09"]),
]
def ensure():
    if not os.path.isdir(WT):
        print(sh(f"git -C /repo worktree add -q {WT} HEAD").stderr)
    sh("git checkout -- .", cwd=WT)
    os.makedirs(MV, exist_ok=True)
    sh(f"rsync -a --delete --exclude target /verif/sim/ {MV}/sim/")
    sh(f"sed -i 's#/repo/#{WT}/#' {MV}/sim/Cargo.toml")
    shutil.copy("/verif/known_findings.txt", MV)
def main():
    filt = sys.argv[1] if len(sys.argv) > 1 else ""
    ensure()
    out = open("/verif/selfmut/BATCH_RESULTS.md", "a")
    for name, f, old, new, gate, props in M:
        if filt and filt not in name: continue
        sh("git checkout -- .", cwd=WT)
        p = f"{WT}/{f}"
        s = open(p).read()
        if s.count(old) < 1:
            out.write(f"| {name} | pattern not found | | |\n"); out.flush(); continue
        open(p, "w").write(s.replace(old, new, 1))
        diff = sh("git diff", cwd=WT).stdout
        open(f"/verif/selfmut/{name}.diff", "w").write(diff)
        pk = " ".join("-p " + c for c in gate.split())
        g = sh(f"cargo nextest run {pk} --no-fail-fast --offline 2>&1 | tail -30", cwd=WT)
        summ = re.findall(r"Summary.*", g.stdout)
        fails = [l.strip() for l in g.stdout.splitlines() if l.strip().startswith("FAIL") and "ssao_bias" not in l and "tree_import" not in l]
        compiled = bool(summ)
        if not compiled:
            out.write(f"| {name} | does not build / no summary | | |\n"); out.flush(); continue
        if fails:
            out.write(f"| {name} | killed by existing tests ({len(set(fails))} failing) | n/a | |\n"); out.flush(); continue
        res = []
        b = sh("cargo build --release --offline 2>&1 | tail -5", cwd=f"{MV}/sim")
        for prop in props:
            r = sh(f"VERIF_ROOT={MV} VERIF_JOBS=6 ./target/release/fidget-sim check {prop} quick 2>&1 | grep -E '^VIOLATION|clause=|^runs=|HARNESS' | head -4", cwd=f"{MV}/sim")
            txt = r.stdout.strip().replace("\n", " ; ")[:260]
            caught = "VIOLATION" in txt
            res.append(f"{prop}: {'CAUGHT' if caught else 'missed'} ({txt})")
        out.write(f"| {name} | survives existing tests | {' / '.join(x.split(':')[0]+':'+('CAUGHT' if 'CAUGHT' in x else 'missed') for x in res)} | {' '.join(res)[:400]} |\n"); out.flush()
    sh("git checkout -- .", cwd=WT)
main()
