#!/bin/bash
# usage: try_patch.sh <patch.diff> <prop> [tier]   -- applies a patch to /repo, runs the check, reverts
set -u
patch="$1"; prop="$2"; tier="${3:-quick}"
cd /repo || exit 2
if ! git diff --quiet; then echo "repo dirty, refusing"; exit 2; fi
if ! git apply "$patch"; then echo "patch does not apply"; exit 2; fi
cd /verif
# evidence and replay files of a mutant run must not overwrite the real ones
scratch=/verif/sim/target/trypatch; mkdir -p $scratch; cp /verif/known_findings.txt $scratch/
VERIF_ROOT_OVERRIDE=$scratch ./run.sh check "$prop" "$tier" > /tmp/try_patch.out 2>&1
code=$?
git -C /repo checkout -- .
# rebuild so that the binary on disk never stays a mutant
(cd /verif/sim && cargo build --release --offline >/dev/null 2>&1)
git -C /repo status --short | grep -v '^??' | head -3
grep -E "^VIOLATION|clause=|^runs=|HARNESS|KNOWN" /tmp/try_patch.out | cut -c1-400
echo "exit=$code"
exit $code
