#!/bin/bash
# Entry point for every check in MANIFEST.json.
#   run.sh setup                      build the simulator, short self-test
#   run.sh check <property> <tier>    tier = quick | thorough
#   run.sh replay <file>
#   run.sh selftest determinism [n]
# Exit codes: 0 property held, 1 violation (VIOLATION line printed),
#             2 harness error (build failure, non-replayable failure, ...)
set -u
ROOT="$(cd "$(dirname "${BASH_SOURCE[0]}")" && pwd)"
ORIG_PWD="$PWD"
# tools/try_patch.sh redirects evidence and replay files of mutant runs to a scratch directory
export VERIF_ROOT="${VERIF_ROOT_OVERRIDE:-$ROOT}"
export CARGO_NET_OFFLINE=true
cd "$ROOT/sim" || exit 2

build() {
    # Rebuilds from /repo's current working tree (path dependencies) with the
    # hooks enabled: .cargo/config.toml sets --cfg fidget_verif.
    if ! cargo build --release --offline >"$ROOT/sim/build.log" 2>&1; then
        tail -n 40 "$ROOT/sim/build.log" >&2
        echo "HARNESS-ERROR: build failed" >&2
        exit 2
    fi
}

BIN="$ROOT/sim/target/release/fidget-sim"
cmd="${1:-}"
case "$cmd" in
    setup)
        build
        "$BIN" selftest determinism 60 || exit 2
        "$BIN" selftest executor 60 || exit 2
        ;;
    check)
        build
        prop="${2:?property}"
        tier="${3:-${VERIF_TIER:-quick}}"
        "$BIN" check "$prop" "$tier"
        code=$?
        # E4: C09's thorough tier also runs shared tapes under Miri
        if [ "$code" -eq 0 ] && [ "$prop" = "C09" ] && [ "$tier" = "thorough" ]; then
            "$ROOT/tools/miri_stage.sh" run
            code=$?
        fi
        exit $code
        ;;
    replay)
        f="${2:?file}"
        case "$f" in /*) ;; *) f="$ORIG_PWD/$f" ;; esac
        if grep -q '"mode":"miri"' "$f" 2>/dev/null; then
            seed=$(grep -o '"miri_seed":[0-9]*' "$f" | grep -o '[0-9]*$')
            phase=$(grep -o '"miri_phase":"[a-z]*"' "$f" | grep -o '[a-z]*"$' | tr -d '"')
            "$ROOT/tools/miri_stage.sh" replay "${phase:-tapes}" "$seed"
            exit $?
        fi
        build
        "$BIN" replay "$f"
        exit $?
        ;;
    selftest)
        build
        shift
        "$BIN" selftest "$@"
        exit $?
        ;;
    *)
        echo "usage: run.sh setup | check <prop> <tier> | replay <file> | selftest ..." >&2
        exit 2
        ;;
esac
