#!/bin/bash
# Entry point for every check in MANIFEST.json.
#   run.sh setup                      build the simulator, short self-test
#   run.sh check <property> <tier>    tier = quick | thorough
#   run.sh replay <file>
#   run.sh selftest determinism [n]
# Exit codes: 0 property held, 1 violation (VIOLATION line printed),
#             2 harness error (build failure, non-replayable failure, ...)
set -u
ROOT="$(cd "$(dirname "${BASH_SOURCE[0]}")" && pwd)"
export VERIF_ROOT="$ROOT"
export CARGO_NET_OFFLINE=true
cd "$ROOT/sim" || exit 2

build() {
    # Rebuilds from /repo's current working tree (path dependencies) with the
    # hooks enabled: .cargo/config.toml sets --cfg fidget_verif.
    if ! cargo build --release --offline >"$ROOT/sim/build.log" 2>&1; then
        tail -n 40 "$ROOT/sim/build.log" >&2
        echo "HARNESS-ERROR: build failed" >&2
        exit 2
    fi
}

BIN="$ROOT/sim/target/release/fidget-sim"
cmd="${1:-}"
case "$cmd" in
    setup)
        build
        VERIF_RUNS=300 "$BIN" selftest determinism 60 || exit 2
        ;;
    check)
        build
        prop="${2:?property}"
        tier="${3:-${VERIF_TIER:-quick}}"
        "$BIN" check "$prop" "$tier"
        exit $?
        ;;
    replay)
        build
        "$BIN" replay "${2:?file}"
        exit $?
        ;;
    selftest)
        build
        shift
        "$BIN" selftest "$@"
        exit $?
        ;;
    *)
        echo "usage: run.sh setup | check <prop> <tier> | replay <file> | selftest ..." >&2
        exit 2
        ;;
esac
