//! E4: one interpreter tape evaluated concurrently from several OS threads
//! under Miri's seeded preemptive scheduler and data-race detector (C09,
//! "one tape evaluated concurrently from many threads gives each thread the
//! results it would get alone").  Each thread compares against the solo
//! results computed before the threads start.
use fidget_core::{
    Context,
    eval::{BulkEvaluator, Function, MathFunction, TracingEvaluator},
    render::CancelToken,
    types::{Grad, Interval},
    vm::{GenericVmFunction, VmFunction},
};
use std::sync::Arc;

fn build<F: MathFunction>() -> F {
    let mut ctx = Context::new();
    let x = ctx.x();
    let y = ctx.y();
    let z = ctx.z();
    // union of a sphere and a box, minus a plane; second output shares nodes
    let x2 = ctx.square(x).unwrap();
    let y2 = ctx.square(y).unwrap();
    let z2 = ctx.square(z).unwrap();
    let s = ctx.add(x2, y2).unwrap();
    let s = ctx.add(s, z2).unwrap();
    let r = ctx.sqrt(s).unwrap();
    let sphere = ctx.sub(r, 0.6).unwrap();
    let ax = ctx.abs(x).unwrap();
    let ay = ctx.abs(y).unwrap();
    let bx = ctx.sub(ax, 0.4).unwrap();
    let by = ctx.sub(ay, 0.7).unwrap();
    let bo = ctx.max(bx, by).unwrap();
    let u = ctx.min(sphere, bo).unwrap();
    let pl = ctx.add(x, z).unwrap();
    let npl = ctx.neg(pl).unwrap();
    let d = ctx.max(u, npl).unwrap();
    let second = ctx.min(bo, 0.25).unwrap();
    F::new(&ctx, &[d, second]).unwrap()
}

fn inputs(t: usize) -> Vec<[f32; 3]> {
    (0..4)
        .map(|k| {
            let a = (t * 4 + k) as f32;
            [0.37 * a - 1.1, 0.9 - 0.23 * a, 0.11 * a - 0.4]
        })
        .collect()
}

#[derive(PartialEq, Debug, Clone)]
struct Solo {
    point: Vec<Vec<u32>>,
    interval: Vec<Vec<[u32; 2]>>,
    float: Vec<Vec<u32>>,
    grad: Vec<Vec<[u32; 4]>>,
    child: Vec<Vec<u32>>,
}

fn work<F: Function + Clone>(f: &F, pts: &[[f32; 3]]) -> Solo {
    let n = f.vars().len();
    let var = |p: &[f32; 3]| -> Vec<f32> { p[..n.min(3)].to_vec() };
    let pt = f.point_tape(Default::default());
    let mut pe = F::new_point_eval();
    let mut point = vec![];
    let mut trace = None;
    for p in pts {
        let (o, tr) = pe.eval(&pt, &var(p)).unwrap();
        point.push(o.iter().map(|v| v.to_bits()).collect());
        if trace.is_none() {
            trace = tr.cloned();
        }
    }
    let it = f.interval_tape(Default::default());
    let mut ie = F::new_interval_eval();
    let mut interval = vec![];
    for p in pts {
        let v: Vec<Interval> =
            var(p).iter().map(|c| Interval::new(*c, *c + 0.3)).collect();
        let (o, tr) = ie.eval(&it, &v).unwrap();
        interval.push(
            o.iter()
                .map(|i| [i.lower().to_bits(), i.upper().to_bits()])
                .collect(),
        );
        if let Some(t) = tr {
            trace = Some(t.clone());
        }
    }
    let ft = f.float_slice_tape(Default::default());
    let mut fe = F::new_float_slice_eval();
    let cols: Vec<Vec<f32>> =
        (0..n).map(|i| pts.iter().map(|p| p[i]).collect()).collect();
    let o = fe.eval(&ft, &cols).unwrap();
    let float = (0..o.len())
        .map(|i| o[i].iter().map(|v| v.to_bits()).collect())
        .collect();
    let gt = f.grad_slice_tape(Default::default());
    let mut ge = F::new_grad_slice_eval();
    let gcols: Vec<Vec<Grad>> = (0..n)
        .map(|i| {
            pts.iter()
                .map(|p| {
                    let mut d = [0.0; 3];
                    d[i] = 1.0;
                    Grad::new(p[i], d[0], d[1], d[2])
                })
                .collect()
        })
        .collect();
    let o = ge.eval(&gt, &gcols).unwrap();
    let grad = (0..o.len())
        .map(|i| {
            o[i].iter()
                .map(|g| {
                    [g.v.to_bits(), g.dx.to_bits(), g.dy.to_bits(), g.dz.to_bits()]
                })
                .collect()
        })
        .collect();
    // simplify the shared function concurrently and evaluate the child
    let mut child = vec![];
    if let Some(tr) = trace {
        let c = f
            .simplify(&tr, Default::default(), &mut Default::default())
            .unwrap();
        let ct = c.float_slice_tape(Default::default());
        let o = fe.eval(&ct, &cols).unwrap();
        child = (0..o.len())
            .map(|i| o[i].iter().map(|v| v.to_bits()).collect())
            .collect();
        // recycling a shared handle must be refused or harmless
        let _ = c.recycle();
    }
    Solo {
        point,
        interval,
        float,
        grad,
        child,
    }
}

/// Several threads simplify one shared function over and over with two
/// alternating traces and evaluate each child at a point of its own box:
/// whatever a simplification consults or caches through the shared handle
/// must not hand a thread the result that belongs to another trace.
fn simplify_storm<F: Function + MathFunction + Clone + 'static>(name: &str) {
    let f: F = build();
    let n = f.vars().len();
    let mut ie = F::new_interval_eval();
    let it = f.interval_tape(Default::default());
    // box A: inside the sphere; box B: far outside, near the slab's plane
    let boxes = [
        [(0.05f32, 0.1f32), (0.05, 0.1), (0.05, 0.1)],
        [(0.9, 1.0), (0.9, 1.0), (-0.2, -0.1)],
    ];
    let mut cases = vec![];
    for b in boxes {
        let v: Vec<Interval> =
            b[..n.min(3)].iter().map(|(l, h)| Interval::new(*l, *h)).collect();
        let (_o, tr) = ie.eval(&it, &v).unwrap();
        let tr = tr.expect("both boxes decide some choice").clone();
        let p: Vec<Vec<f32>> = b[..n.min(3)].iter().map(|(l, _)| vec![*l]).collect();
        let c = f
            .simplify(&tr, Default::default(), &mut Default::default())
            .unwrap();
        let ct = c.float_slice_tape(Default::default());
        let mut fe = F::new_float_slice_eval();
        let o = fe.eval(&ct, &p).unwrap();
        let want: Vec<u32> = (0..o.len()).map(|i| o[i][0].to_bits()).collect();
        cases.push((tr, p, want, c.size()));
    }
    assert_ne!(cases[0].3, cases[1].3, "the two traces must give different children");
    let cases = Arc::new(cases);
    let hs: Vec<_> = (0..3)
        .map(|t| {
            let f = f.clone();
            let cases = cases.clone();
            std::thread::spawn(move || {
                let mut fe = F::new_float_slice_eval();
                for r in 0..10 {
                    let (tr, p, want, size) = &cases[(r + t) % 2];
                    let c = f
                        .simplify(tr, Default::default(), &mut Default::default())
                        .unwrap();
                    assert_eq!(c.size(), *size, "thread {t} round {r}: child of another trace");
                    let ct = c.float_slice_tape(Default::default());
                    let o = fe.eval(&ct, p).unwrap();
                    let got: Vec<u32> =
                        (0..o.len()).map(|i| o[i][0].to_bits()).collect();
                    assert_eq!(&got, want, "thread {t} round {r}: wrong child values");
                }
            })
        })
        .collect();
    for h in hs {
        h.join().unwrap();
    }
    println!("{name} storm: ok");
}

/// A storm on the smallest function that has two different simplifications:
/// almost all of each thread's time is spent in the handle-level entry and
/// exit of `simplify` (where shared per-tape state would be consulted), not in
/// the simplification itself, so short windows there are hit by Miri's random
/// preemption far more often than in `simplify_storm`.
fn mini_storm<F: Function + MathFunction + Clone + 'static>(name: &str) {
    let f: F = {
        let mut ctx = Context::new();
        let x = ctx.x();
        let y = ctx.y();
        let m = ctx.min(x, y).unwrap();
        F::new(&ctx, &[m]).unwrap()
    };
    let mut ie = F::new_interval_eval();
    let it = f.interval_tape(Default::default());
    // box A: x < y everywhere; box B: y < x everywhere
    let boxes = [[(0.0f32, 1.0f32), (2.0, 3.0)], [(2.0, 3.0), (0.0, 1.0)]];
    let mut cases = vec![];
    for b in boxes {
        let v: Vec<Interval> =
            b.iter().map(|(l, h)| Interval::new(*l, *h)).collect();
        let (_o, tr) = ie.eval(&it, &v).unwrap();
        let tr = tr.expect("decided").clone();
        let p: Vec<Vec<f32>> = b.iter().map(|(l, _)| vec![*l]).collect();
        let want = b[0].0.min(b[1].0).to_bits();
        cases.push((tr, p, want));
    }
    let cases = Arc::new(cases);
    let hs: Vec<_> = (0..4)
        .map(|t| {
            let f = f.clone();
            let cases = cases.clone();
            std::thread::spawn(move || {
                let mut fe = F::new_float_slice_eval();
                let mut ws = Default::default();
                for r in 0..24 {
                    let (tr, p, want) = &cases[(r + t) % 2];
                    let c = f.simplify(tr, Default::default(), &mut ws).unwrap();
                    let ct = c.float_slice_tape(Default::default());
                    let o = fe.eval(&ct, p).unwrap();
                    assert_eq!(
                        o[0][0].to_bits(),
                        *want,
                        "thread {t} round {r}: simplify returned the child of another trace"
                    );
                }
            })
        })
        .collect();
    for h in hs {
        h.join().unwrap();
    }
    println!("{name} mini storm: ok");
}

/// First use through the shape-level API: every thread wraps its handle of a
/// freshly built, never used function in a `Shape`, builds its own four
/// shape tapes and evaluates them with shape-level evaluators (the route the
/// renderers and the mesher take).  The solo results come from an
/// independent instance of the function.
fn shape_scenario<F: Function + MathFunction + Clone + 'static>(name: &str) {
    use fidget_core::shape::{EzShape, Shape};
    fn shape_work<F: Function + MathFunction + Clone>(
        f: &F,
        pts: &[[f32; 3]],
    ) -> Vec<Vec<u32>> {
        let s = Shape::<F>::new_raw(f.clone());
        let mut out = vec![];
        let pt = s.ez_point_tape();
        let mut pe = Shape::<F>::new_point_eval();
        out.push(
            pts.iter()
                .map(|p| pe.eval(&pt, p[0], p[1], p[2]).unwrap().0.to_bits())
                .collect(),
        );
        let it = s.ez_interval_tape();
        let mut ie = Shape::<F>::new_interval_eval();
        let mut iv = vec![];
        for p in pts {
            let (o, _) = ie
                .eval(
                    &it,
                    Interval::new(p[0], p[0] + 0.3),
                    Interval::new(p[1], p[1] + 0.3),
                    Interval::new(p[2], p[2] + 0.3),
                )
                .unwrap();
            iv.push(o.lower().to_bits());
            iv.push(o.upper().to_bits());
        }
        out.push(iv);
        let xs: Vec<f32> = pts.iter().map(|p| p[0]).collect();
        let ys: Vec<f32> = pts.iter().map(|p| p[1]).collect();
        let zs: Vec<f32> = pts.iter().map(|p| p[2]).collect();
        let ft = s.ez_float_slice_tape();
        let mut fe = Shape::<F>::new_float_slice_eval();
        out.push(
            fe.eval(&ft, &xs, &ys, &zs)
                .unwrap()
                .iter()
                .map(|v| v.to_bits())
                .collect(),
        );
        let gt = s.ez_grad_slice_tape();
        let mut ge = Shape::<F>::new_grad_slice_eval();
        let g = |v: &[f32], k: usize| -> Vec<Grad> {
            v.iter()
                .map(|v| {
                    let mut d = [0.0; 3];
                    d[k] = 1.0;
                    Grad::new(*v, d[0], d[1], d[2])
                })
                .collect()
        };
        out.push(
            ge.eval(&gt, &g(&xs, 0), &g(&ys, 1), &g(&zs, 2))
                .unwrap()
                .iter()
                .flat_map(|g| {
                    [g.v.to_bits(), g.dx.to_bits(), g.dy.to_bits(), g.dz.to_bits()]
                })
                .collect(),
        );
        out
    }
    fn build1<F: MathFunction>() -> F {
        // single output (shapes are single-output); the axes are first read
        // at different depths of the expression
        let mut ctx = Context::new();
        let x = ctx.x();
        let y = ctx.y();
        let z = ctx.z();
        let y2 = ctx.square(y).unwrap();
        let a = ctx.add(y2, 0.25).unwrap();
        let b = ctx.sqrt(a).unwrap();
        let c = ctx.mul(b, z).unwrap();
        let d = ctx.abs(c).unwrap();
        let e = ctx.sub(d, 0.3).unwrap();
        let m = ctx.min(e, y).unwrap();
        let r = ctx.sub(m, x).unwrap();
        F::new(&ctx, &[r]).unwrap()
    }
    let rounds = 3;
    for round in 0..rounds {
        let f_ref: F = build1();
        let f: F = build1();
        let threads = 3;
        let solo: Vec<_> =
            (0..threads).map(|t| shape_work(&f_ref, &inputs(t))).collect();
        let solo = Arc::new(solo);
        let hs: Vec<_> = (0..threads)
            .map(|t| {
                let f = f.clone();
                let solo = solo.clone();
                std::thread::spawn(move || {
                    let got = shape_work(&f, &inputs(t));
                    assert_eq!(
                        got, solo[t],
                        "round {round} thread {t}: shape-level results differ from the solo run"
                    );
                })
            })
            .collect();
        drop(f);
        for h in hs {
            h.join().unwrap();
        }
    }
    println!("{name} shapes: ok");
}

fn scenario<F: Function + MathFunction + Clone + 'static>(name: &str) {
    // the solo results come from an independent instance, so that nothing
    // computed lazily on first use is already in place on the shared one
    let f_ref: F = build();
    let f: F = build();
    let threads = 3;
    let solo: Vec<Solo> =
        (0..threads).map(|t| work(&f_ref, &inputs(t))).collect();
    let solo = Arc::new(solo);
    let token = CancelToken::new();
    let hs: Vec<_> = (0..threads)
        .map(|t| {
            let f = f.clone(); // shares the Arc'd tape data
            let solo = solo.clone();
            let token = token.clone();
            std::thread::spawn(move || {
                let got = work(&f, &inputs(t));
                if t == 1 {
                    token.cancel();
                }
                let _ = token.is_cancelled();
                // the last handle alive may recycle; the others are refused
                let _ = f.recycle();
                assert_eq!(got, solo[t], "thread {t} differs from its solo run");
            })
        })
        .collect();
    drop(f);
    for h in hs {
        h.join().unwrap();
    }
    assert!(token.is_cancelled());
    println!("{name}: ok");
}

/// E4b: the REAL rayon scheduler (not the simulated executor) driving the
/// real renderers and mesher on tiny workloads, under Miri's seeded
/// preemptive scheduler; a second thread sets the cancel token at a
/// schedule-dependent instant.
fn rayon_scenario() {
    use fidget_core::render::{ImageSize, ThreadPool, TileSizes, VoxelSize};
    use fidget_core::shape::Shape;
    use fidget_mesh::{Octree, Settings};
    use fidget_raster::{pixel, voxel};
    let f: VmFunction = {
        let mut ctx = Context::new();
        let x = ctx.x();
        let y = ctx.y();
        let z = ctx.z();
        let x2 = ctx.square(x).unwrap();
        let y2 = ctx.square(y).unwrap();
        let z2 = ctx.square(z).unwrap();
        let s = ctx.add(x2, y2).unwrap();
        let s = ctx.add(s, z2).unwrap();
        let r = ctx.sqrt(s).unwrap();
        let sphere = ctx.sub(r, 0.7).unwrap();
        let ax = ctx.abs(x).unwrap();
        let bx = ctx.sub(ax, 0.3).unwrap();
        let d = ctx.max(sphere, bx).unwrap();
        VmFunction::new(&ctx, &[d]).unwrap()
    };
    let shape = Shape::new_raw(f);
    let pool = |n| {
        ThreadPool::Custom(
            rayon::ThreadPoolBuilder::new().num_threads(n).build().unwrap(),
        )
    };
    let tiles = || Some(TileSizes::new(&[4, 2]).unwrap());

    // 2-D
    let cfg = pixel::RenderConfig::from_size(ImageSize::new(7, 5));
    let run2 = |threads: Option<&ThreadPool>, cancel: CancelToken| {
        pixel::render(
            shape.clone().try_into().unwrap(),
            &cfg,
            &pixel::EvalConfig {
                tile_sizes: tiles(),
                threads,
                cancel,
            },
        )
        .map(|i| i.iter().map(|p| p.inside()).collect::<Vec<bool>>())
    };
    let seq = run2(None, CancelToken::new()).unwrap();
    let p2 = pool(2);
    assert_eq!(run2(Some(&p2), CancelToken::new()).unwrap(), seq, "2-D pool");
    // cancelled at a schedule-dependent instant: None or the complete image
    for yields in [1usize, 6, 25, 60] {
        let tok = CancelToken::new();
        let t2 = tok.clone();
        let h = std::thread::spawn(move || {
            for _ in 0..yields {
                std::thread::yield_now();
            }
            t2.cancel();
        });
        match run2(Some(&p2), tok) {
            None => (),
            Some(img) => assert_eq!(
                img, seq,
                "2-D cancelled run returned a partial image"
            ),
        }
        h.join().unwrap();
    }
    let pre = CancelToken::new();
    pre.cancel();
    assert!(run2(Some(&p2), pre).is_none(), "2-D pre-cancelled run returned a result");

    // 3-D
    let cfg3 = voxel::RenderConfig::from_size(VoxelSize::new(6, 5, 4));
    let run3 = |threads: Option<&ThreadPool>, cancel: CancelToken| {
        voxel::render(
            shape.clone().try_into().unwrap(),
            &cfg3,
            &voxel::EvalConfig {
                tile_sizes: tiles(),
                threads,
                cancel,
            },
        )
        .map(|i| i.iter().map(|p| (p.depth, p.normal.map(f32::to_bits))).collect::<Vec<_>>())
    };
    let seq3 = run3(None, CancelToken::new()).unwrap();
    let p3 = pool(3);
    assert_eq!(run3(Some(&p3), CancelToken::new()).unwrap(), seq3, "3-D pool");

    // mesh
    let build = |threads: Option<&ThreadPool>, cancel: CancelToken| {
        let s = Settings {
            depth: 1,
            world_to_model: nalgebra_identity(),
            threads,
            cancel,
        };
        Octree::build(&shape.clone().try_into().unwrap(), &s).map(|o| {
            let m = o.walk_dual();
            let mut t: Vec<[[u32; 3]; 3]> = m
                .triangles
                .iter()
                .map(|t| {
                    let p = [t.x, t.y, t.z].map(|i| {
                        let v = m.vertices[i];
                        [v.x.to_bits(), v.y.to_bits(), v.z.to_bits()]
                    });
                    let k = (0..3).min_by_key(|i| p[*i]).unwrap();
                    [p[k], p[(k + 1) % 3], p[(k + 2) % 3]]
                })
                .collect();
            t.sort();
            t
        })
    };
    let mseq = build(None, CancelToken::new()).unwrap();
    assert_eq!(build(Some(&p2), CancelToken::new()).unwrap(), mseq, "mesh pool");
    let tok = CancelToken::new();
    let t2 = tok.clone();
    let h = std::thread::spawn(move || {
        std::thread::yield_now();
        t2.cancel();
    });
    match build(Some(&p3), tok) {
        None => (),
        Some(m) => assert_eq!(m, mseq, "cancelled mesh build returned a partial octree"),
    }
    h.join().unwrap();
    println!("rayon: ok");
}

fn nalgebra_identity() -> nalgebra::Matrix4<f32> {
    nalgebra::Matrix4::identity()
}

fn main() {
    let which = std::env::args().nth(1).unwrap_or_default();
    if which == "storm" {
        simplify_storm::<VmFunction>("vm255");
        return;
    }
    if which == "shapes" {
        shape_scenario::<VmFunction>("vm255");
        return;
    }
    if which == "mini" {
        mini_storm::<VmFunction>("vm255");
        return;
    }
    if which != "rayon" {
        scenario::<VmFunction>("vm255");
        simplify_storm::<VmFunction>("vm255");
        mini_storm::<VmFunction>("vm255");
        mini_storm::<GenericVmFunction<3>>("vm3");
        shape_scenario::<VmFunction>("vm255");
        shape_scenario::<GenericVmFunction<3>>("vm3");
        scenario::<GenericVmFunction<3>>("vm3");
    }
    if which != "tapes" {
        rayon_scenario();
    }
}
