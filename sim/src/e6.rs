//! E6 step-sim (C09: "one tape evaluated concurrently from many threads gives
//! each thread the results it would get alone", for code the simulator has no
//! sched point in).
//!
//! Two real OS threads of a child process share one function (its tapes, or
//! the never-used function itself) and run drawn operation lists.  The child is
//! traced with ptrace: thread A is single-stepped from its start marker, so
//! the simulator, not the kernel, decides at which *machine instruction* A is
//! preempted; A is then frozen, thread B runs its whole list, and A resumes.
//! Candidate preemption points are found by a discovery pass that decodes the
//! instruction at every step: the points just before and just after each
//! `lock`-prefixed instruction, implicit-lock `xchg`, fence or `syscall` that
//! lies in the executable itself or in JIT-generated code (that is where Rust
//! atomics, `Arc`, `Mutex` and `OnceLock` of the code under test compile to),
//! plus drawn plain instruction indices.  Every result must equal the result of
//! the same list run alone on an independent instance of the function.
//!
//! One (seed, step index) pair is one exactly repeatable execution: the child
//! runs with address-space randomisation off, its randomness comes from the
//! getrandom seam, and A's instruction stream up to the preemption point does
//! not depend on anything B does (B has not started its list yet).
use crate::chooser::{Chooser, mix};
use crate::common::*;
use crate::e2::{ev_float, ev_grad, ev_interval, ev_point};
use crate::e5::{Op, SharedTapes, gen_ops, work};
use crate::gen_::{FuncGen, gen_func, gen_func_with};
use crate::rt::{self, Shared};
use fidget_core::{
    Context,
    context::Node,
    eval::{BulkEvaluator, Function, MathFunction, Tape, TracingEvaluator},
    render::{CancelToken, ImageSize, RenderHints, TileSizes, VoxelSize},
    types::{Grad, Interval},
    var::Var,
    vm::{GenericVmFunction, VmFunction},
};
use fidget_jit::JitFunction;
use std::sync::Arc;
use std::sync::atomic::{AtomicBool, Ordering};

////////////////////////////////////////////////////////////////////////////////
// The traced child

const SIG_A: i32 = libc::SIGUSR1;
const SIG_B: i32 = libc::SIGUSR2;
/// the main thread's marker: it stays stopped there while A and B are driven
const SIG_M: i32 = libc::SIGWINCH;

/// Stops the calling thread in a signal-delivery-stop that the tracer sees
/// (the signal itself is suppressed by the tracer, and ignored without one)
#[inline(never)]
fn marker(sig: i32) {
    unsafe {
        let tid = libc::syscall(libc::SYS_gettid);
        libc::syscall(libc::SYS_tgkill, libc::getpid(), tid, sig);
    }
}

struct Scenario {
    backend: u32,
    kind: u32,
    fg: FuncGen,
}

fn gen_scenario(ch: &mut Chooser) -> Scenario {
    let backend = ch.choose("backend", 4);
    // 0: tapes built up front and shared; 1: each thread builds its own tapes
    // from its clone of the shared, never used function; 2: shape-level first
    // use of the shared function (axes only, one output)
    // 3: hoarding - each thread holds many live tapes of several functions at
    // once (some built by the main thread and handed over), evaluates them in
    // a drawn order and drops them in another: what pools, arenas and
    // free-lists of storage see
    // 4: render level - each thread renders small 2-D and 3-D images of its
    // clone of the shared shape (no pool): what process-wide state in the
    // renderers and render handles sees
    let kind = ch.choose("e6_kind", 5);
    let max_ops = *ch.pick("fn_size", &[4usize, 8, 16]);
    let fg = if kind == 2 || kind == 4 {
        // shape level: the axes plus up to three bound variables
        gen_func_with(ch, max_ops, 3)
    } else {
        gen_func(ch, max_ops)
    };
    Scenario { backend, kind, fg }
}

fn shape_work<F: Function + MathFunction + Clone>(
    f: &F,
    vars: &[Var],
    ops: &[Op],
) -> Vec<u64> {
    use fidget_core::shape::{EzShape, Shape, ShapeVars};
    let s = Shape::<F>::new_raw(f.clone());
    // every variable bound by identity, to distinct values
    let mut sv = ShapeVars::<f32>::new();
    for (k, v) in vars.iter().enumerate() {
        if let Some(i) = v.index() {
            sv.insert(i, 0.625 + 0.75 * k as f32);
        }
    }
    let sv = &sv;
    let mut out = vec![];
    for op in ops {
        let mut h = 0u64;
        let mut push = |v: u32| h = mix(h, v as u64);
        let p3 = |v: &[f32]| -> [f32; 3] {
            [
                v.first().copied().unwrap_or(0.25),
                v.get(1).copied().unwrap_or(-0.5),
                v.get(2).copied().unwrap_or(0.75),
            ]
        };
        match op {
            Op::Point(v) => {
                let p = p3(v);
                let t = s.ez_point_tape();
                let mut e = Shape::<F>::new_point_eval();
                push(e.eval_with_vars(&t, p[0], p[1], p[2], sv).unwrap().0.to_bits());
            }
            Op::Interval(b) | Op::Simplify(b) => {
                let lo = p3(&b.iter().map(|x| x.0).collect::<Vec<_>>());
                let hi = p3(&b.iter().map(|x| x.1).collect::<Vec<_>>());
                let iv = |k: usize| Interval::new(lo[k].min(hi[k]), lo[k].max(hi[k]));
                let t = s.ez_interval_tape();
                let mut e = Shape::<F>::new_interval_eval();
                let (o, tr) = e.eval_with_vars(&t, iv(0), iv(1), iv(2), sv).unwrap();
                push(o.lower().to_bits());
                push(o.upper().to_bits());
                if let (Op::Simplify(_), Some(tr)) = (op, tr) {
                    let c = s.ez_simplify(tr).unwrap();
                    push(c.size() as u32);
                    let ct = c.ez_point_tape();
                    let mut pe = Shape::<F>::new_point_eval();
                    push(pe.eval_with_vars(&ct, lo[0], lo[1], lo[2], sv).unwrap().0.to_bits());
                }
            }
            Op::Float(c) | Op::Grad(c) => {
                let n = c.first().map(|v| v.len()).unwrap_or(0).max(1);
                let col = |k: usize| -> Vec<f32> {
                    (0..n)
                        .map(|i| {
                            c.get(k)
                                .and_then(|v| v.get(i))
                                .copied()
                                .unwrap_or(0.125 * (i + k) as f32)
                        })
                        .collect()
                };
                let (xs, ys, zs) = (col(0), col(1), col(2));
                if matches!(op, Op::Float(_)) {
                    let t = s.ez_float_slice_tape();
                    let mut e = Shape::<F>::new_float_slice_eval();
                    for v in e.eval_with_vars(&t, &xs, &ys, &zs, sv).unwrap() {
                        push(v.to_bits());
                    }
                } else {
                    let g = |v: &[f32], k: usize| -> Vec<Grad> {
                        v.iter()
                            .map(|v| {
                                let mut d = [0.0; 3];
                                d[k] = 1.0;
                                Grad::new(*v, d[0], d[1], d[2])
                            })
                            .collect()
                    };
                    let t = s.ez_grad_slice_tape();
                    let mut e = Shape::<F>::new_grad_slice_eval();
                    for v in e.eval_with_vars(&t, &g(&xs, 0), &g(&ys, 1), &g(&zs, 2), sv).unwrap() {
                        push(v.v.to_bits());
                        push(v.dx.to_bits());
                        push(v.dy.to_bits());
                        push(v.dz.to_bits());
                    }
                }
            }
        }
        out.push(h);
    }
    out
}

/// Render-level workload: every operation renders a small image of the
/// thread's clone of the shared shape on the calling thread (no pool)
fn render_work<F: Function + MathFunction + RenderHints + Clone>(
    f: &F,
    vars: &[Var],
    ops: &[Op],
) -> Vec<u64> {
    use fidget_core::shape::{Shape, ShapeVars};
    use fidget_raster::{pixel, voxel};
    let s = Shape::<F>::new_raw(f.clone());
    let mut sv = ShapeVars::<f32>::new();
    for (k, v) in vars.iter().enumerate() {
        if let Some(i) = v.index() {
            sv.insert(i, 0.625 + 0.75 * k as f32);
        }
    }
    let mut out = vec![];
    for (k, op) in ops.iter().enumerate() {
        let mut h = 0u64;
        let n = match op {
            Op::Point(v) => v.len(),
            Op::Interval(b) | Op::Simplify(b) => b.len() + 1,
            Op::Float(c) | Op::Grad(c) => c.first().map(|v| v.len()).unwrap_or(0) + 2,
        } + k;
        let Ok(bound) = s.bind(&sv) else { continue };
        match op {
            Op::Float(_) | Op::Grad(_) => {
                let cfg = voxel::RenderConfig {
                    image_size: VoxelSize::new(6 + (n % 5) as u32, 5 + (n % 4) as u32, 4 + (n % 6) as u32),
                    world_to_model: nalgebra::Matrix4::identity(),
                };
                let ec = voxel::EvalConfig {
                    tile_sizes: Some(TileSizes::new(if n % 2 == 0 { &[4, 2] } else { &[8, 4] }).unwrap()),
                    threads: None,
                    cancel: CancelToken::new(),
                };
                if let Some(img) = voxel::render(bound, &cfg, &ec) {
                    for p in img.iter() {
                        h = mix(h, p.depth as u64);
                        for c in p.normal {
                            h = mix(h, c.to_bits() as u64);
                        }
                    }
                }
            }
            _ => {
                let cfg = pixel::RenderConfig {
                    image_size: ImageSize::new(7 + (n % 13) as u32, 5 + (n % 11) as u32),
                    pixel_perfect: matches!(op, Op::Simplify(_)),
                    world_to_model: nalgebra::Matrix3::identity(),
                    z: 0.25,
                };
                let ec = pixel::EvalConfig {
                    tile_sizes: Some(TileSizes::new(if n % 2 == 0 { &[8, 4] } else { &[4] }).unwrap()),
                    threads: None,
                    cancel: CancelToken::new(),
                };
                if let Some(img) = pixel::render(bound, &cfg, &ec) {
                    for p in img.iter() {
                        h = mix(h, match p.unpack() {
                            pixel::DistancePixel::Value(v) => v.to_bits() as u64,
                            pixel::DistancePixel::Fill { depth, inside } => {
                                (1u64 << 40) | ((depth as u64) << 1) | inside as u64
                            }
                        });
                    }
                }
            }
        }
        out.push(h);
    }
    out
}

pub enum AnyTape<F: Function> {
    P(<F::PointEval as TracingEvaluator>::Tape),
    I(<F::IntervalEval as TracingEvaluator>::Tape),
    Fl(<F::FloatSliceEval as BulkEvaluator>::Tape),
    G(<F::GradSliceEval as BulkEvaluator>::Tape),
}

fn any_tape<F: Function>(f: &F, k: usize) -> AnyTape<F> {
    match k % 4 {
        0 => AnyTape::P(f.point_tape(Default::default())),
        1 => AnyTape::I(f.interval_tape(Default::default())),
        2 => AnyTape::Fl(f.float_slice_tape(Default::default())),
        _ => AnyTape::G(f.grad_slice_tape(Default::default())),
    }
}

/// The hoarding workload of one thread: `gift` tapes came from the main
/// thread; the thread then *churns*: it grows its set of live tapes (built from
/// the function and two of its simplifications) to `n`, shrinks it to a few,
/// grows it again and drains it, evaluating a drawn live tape every few steps
/// and dropping or recycling drawn ones - the traffic that pools, arenas and
/// free-lists of storage see, with evaluations *after* storage went back and
/// forth so that a page handed out twice is observable
fn hoard_work<F: Function + Clone>(
    f: &F,
    gift: Vec<AnyTape<F>>,
    n: usize,
    seed: u64,
) -> Vec<u64> {
    let nvars = f.vars().len();
    let bx = |k: usize| -> Vec<Interval> {
        (0..nvars)
            .map(|i| {
                let a = -1.0 + 0.5 * ((i + k) % 5) as f32;
                Interval::new(a, a + 0.75)
            })
            .collect()
    };
    // the function and up to two simplifications of it: tapes with unlike code
    let mut fns = vec![f.clone()];
    {
        let it = f.interval_tape(Default::default());
        let mut ie = F::new_interval_eval();
        for k in [1usize, 3] {
            if let (_, Some(tr)) = ev_interval::<F>(&mut ie, &it, &bx(k)) {
                if let Ok(c) = f.simplify(&tr, Default::default(), &mut Default::default()) {
                    fns.push(c);
                }
            }
        }
    }
    let mut pe = F::new_point_eval();
    let mut ie = F::new_interval_eval();
    let mut fe = F::new_float_slice_eval();
    let mut ge = F::new_grad_slice_eval();
    let mut eval_one = |k: usize, tape: &AnyTape<F>| -> u64 {
        let pt: Vec<f32> = (0..nvars).map(|i| 0.25 * ((i + k) % 7) as f32 - 0.5).collect();
        match tape {
            AnyTape::P(t) => ev_point::<F>(&mut pe, t, &pt).0.digest(),
            AnyTape::I(t) => ev_interval::<F>(&mut ie, t, &bx(k)).0.digest(),
            AnyTape::Fl(t) => {
                let cols: Vec<Vec<f32>> =
                    pt.iter().map(|v| vec![*v, *v + 0.5, -*v]).collect();
                ev_float::<F>(&mut fe, t, &cols).digest()
            }
            AnyTape::G(t) => {
                let cols: Vec<Vec<Grad>> = pt
                    .iter()
                    .enumerate()
                    .map(|(i, v)| {
                        let mut d = [0.0; 3];
                        d[i % 3] = 1.0;
                        vec![Grad::new(*v, d[0], d[1], d[2])]
                    })
                    .collect();
                ev_grad::<F>(&mut ge, t, &cols).digest()
            }
        }
    };
    let mut r = crate::chooser::Rng::new(seed ^ 0xC0FFEE);
    let mut live: Vec<(usize, AnyTape<F>)> = gift.into_iter().enumerate().collect();
    let mut next_id = live.len();
    let mut out = vec![];
    let n = n.max(2);
    let targets = [
        n,
        2 + (r.next() % 4) as usize,
        n / 2 + (r.next() % (n as u64 / 2 + 1)) as usize,
        0,
    ];
    for target in targets {
        while live.len() != target {
            let growing = live.len() < target;
            if r.next() % 3 == 0 && !live.is_empty() {
                let j = (r.next() % live.len() as u64) as usize;
                let (id, t) = &live[j];
                out.push(mix(*id as u64, eval_one(*id, t)));
            } else if growing {
                let id = next_id;
                next_id += 1;
                live.push((id, any_tape(&fns[id % fns.len()], id + seed as usize)));
            } else {
                let j = (r.next() % live.len() as u64) as usize;
                let (_, t) = live.swap_remove(j);
                if r.next() % 2 == 0 {
                    match t {
                        AnyTape::P(t) => drop(t.recycle()),
                        AnyTape::I(t) => drop(t.recycle()),
                        AnyTape::Fl(t) => drop(t.recycle()),
                        AnyTape::G(t) => drop(t.recycle()),
                    }
                } else {
                    drop(t);
                }
            }
        }
    }
    out
}

fn tapes_of<F: Function + Clone>(f: &F) -> SharedTapes<F> {
    SharedTapes::<F> {
        p: f.point_tape(Default::default()),
        i: f.interval_tape(Default::default()),
        fl: f.float_slice_tape(Default::default()),
        g: f.grad_slice_tape(Default::default()),
        f: f.clone(),
    }
}

/// What a thread does between its two markers
fn thread_work<F: Function + MathFunction + RenderHints + Clone>(
    kind: u32,
    f: &F,
    vars: &[Var],
    sh: Option<&SharedTapes<F>>,
    ops: &[Op],
    hoard: (Vec<AnyTape<F>>, usize, u64),
) -> Vec<u64> {
    match kind {
        3 => hoard_work::<F>(f, hoard.0, hoard.1, hoard.2),
        0 => work::<F>(sh.unwrap(), ops),
        1 => {
            let sh = tapes_of(f);
            work::<F>(&sh, ops)
        }
        4 => render_work::<F>(f, vars, &ops[..ops.len().min(3)]),
        _ => shape_work::<F>(f, vars, ops),
    }
}

fn child_go<F: Function + MathFunction + RenderHints + Clone + Send + Sync + 'static>(
    sc: &Scenario,
    ch: &mut Chooser,
) -> i32
where
    SharedTapes<F>: Send + Sync,
    AnyTape<F>: Send,
{
    let build = || -> Option<(F, Vec<Var>)> {
        let mut ctx = Context::new();
        let vars: Vec<Var> = (0..sc.fg.nvars).map(|_| Var::new()).collect();
        let nodes = sc.fg.dag.lower(&mut ctx, &vars);
        let mut outs: Vec<Node> =
            sc.fg.outputs.iter().map(|o| nodes[*o]).collect();
        if sc.kind == 2 || sc.kind == 4 {
            outs.truncate(1);
        }
        match rt::catch(|| F::new(&ctx, &outs)) {
            Ok(Ok(f)) => Some((f, vars)),
            _ => None,
        }
    };
    // the shared instance, and an independent one for the solo reference so
    // that nothing lazy is pre-computed on the shared one
    rt::set_random_seed(0xE6E6);
    let Some((f, vars)) = build() else { return 4 };
    rt::set_random_seed(0xE6E6);
    // (`Var::new` draws from a per-thread generator that is seeded once, so
    // the second instance has other variable ids: each side uses its own)
    let Some((f_ref, vars_ref)) = build() else { return 4 };
    let nvars = f.vars().len();
    let mut ops: [Vec<Op>; 2] = [gen_ops(ch, nvars), gen_ops(ch, nvars)];
    // caches and memos are keyed by what was asked before: one operation in
    // three repeats an earlier one of either thread (same trace, same inputs),
    // and simplifications are more frequent than in the E5 lists
    for t in 0..2 {
        for k in 0..ops[t].len() {
            match ch.choose("e6_op_bias", 6) {
                0 | 1 => {
                    let pool: Vec<Op> = ops[1 - t]
                        .iter()
                        .chain(ops[t][..k].iter())
                        .cloned()
                        .collect();
                    if !pool.is_empty() {
                        let j = ch.choose("e6_repeat_of", pool.len() as u32) as usize;
                        ops[t][k] = pool[j].clone();
                    }
                }
                2 => {
                    if let Op::Interval(b) = &ops[t][k] {
                        ops[t][k] = Op::Simplify(b.clone());
                    }
                }
                _ => (),
            }
        }
    }
    let kind = sc.kind;
    // hoarding parameters per thread: tapes handed over by the main thread,
    // tapes built by the thread itself, order seed
    let hoard_par: [(usize, usize, u64); 2] = [0, 1].map(|_| {
        (
            ch.choose("e6_gift", 7) as usize,
            6 + ch.choose("e6_hoard", 40) as usize,
            ch.choose("e6_hoard_seed", 1 << 20) as u64,
        )
    });
    let gifts = |f: &F, t: usize| -> Vec<AnyTape<F>> {
        (0..hoard_par[t].0).map(|k| any_tape(f, k + t)).collect()
    };
    let solo = rt::catch(|| {
        let sh_ref = if kind == 0 { Some(tapes_of(&f_ref)) } else { None };
        [0usize, 1].map(|t| {
            let g = if kind == 3 { gifts(&f_ref, t) } else { vec![] };
            thread_work::<F>(
                kind,
                &f_ref,
                &vars_ref,
                sh_ref.as_ref(),
                &ops[t],
                (g, hoard_par[t].1, hoard_par[t].2),
            )
        })
    });
    let solo = match solo {
        Ok(s) => s,
        Err(p) => {
            // panics without any concurrency are not this clause's business
            dbg(|| format!("solo pass panicked: {p}"));
            return 4;
        }
    };
    drop(f_ref);
    let sh: Option<Arc<SharedTapes<F>>> = if kind == 0 {
        match rt::catch(|| tapes_of(&f)) {
            Ok(s) => Some(Arc::new(s)),
            Err(_) => return 4,
        }
    } else {
        None
    };
    let ready = Arc::new(AtomicBool::new(false));
    let spawn = |which: usize, sig: i32| {
        let hoard = (
            if kind == 3 { gifts(&f, which) } else { vec![] },
            hoard_par[which].1,
            hoard_par[which].2,
        );
        let f = f.clone();
        let sh = sh.clone();
        let ops = ops[which].clone();
        let ready = ready.clone();
        let vars = vars.clone();
        std::thread::Builder::new()
            .stack_size(16 << 20)
            .spawn(move || {
                ready.store(true, Ordering::SeqCst);
                // the panic-capture bookkeeping (process-wide statics of the
                // harness) stays outside the markers
                rt::catch(|| {
                    struct EndMarker(i32);
                    impl Drop for EndMarker {
                        fn drop(&mut self) {
                            marker(self.0);
                        }
                    }
                    marker(sig);
                    let _end = EndMarker(sig);
                    thread_work::<F>(kind, &f, &vars, sh.as_deref(), &ops, hoard)
                })
            })
            .expect("spawn")
    };
    let ha = spawn(0, SIG_A);
    while !ready.swap(false, Ordering::SeqCst) {
        std::thread::yield_now();
    }
    let hb = spawn(1, SIG_B);
    drop(f);
    // the tracer keeps this thread stopped here until A and B are done, so
    // that nothing but the two workers executes while breakpoints are planted
    marker(SIG_M);
    let ra = ha.join();
    let rb = hb.join();
    let mut code = 0;
    for (t, (r, want)) in [ra, rb].into_iter().zip(solo.iter()).enumerate() {
        match r {
            Ok(Ok(got)) => {
                if &got != want {
                    let at = got
                        .iter()
                        .zip(want)
                        .position(|(a, b)| a != b)
                        .unwrap_or(0);
                    println!(
                        "E6-MISMATCH thread {t}: operation {at} of {:?} gives another result than alone",
                        ops[t].iter().map(op_name).collect::<Vec<_>>()
                    );
                    code = 3;
                }
            }
            Ok(Err(p)) => {
                println!("E6-PANIC thread {t}: {p}");
                code = 3;
            }
            Err(_) => {
                println!("E6-PANIC thread {t}: thread died");
                code = 3;
            }
        }
    }
    code
}

fn op_name(op: &Op) -> String {
    match op {
        Op::Point(_) => "point".into(),
        Op::Interval(_) => "interval".into(),
        Op::Float(c) => format!("float[{}]", c.first().map(|v| v.len()).unwrap_or(0)),
        Op::Grad(c) => format!("grad[{}]", c.first().map(|v| v.len()).unwrap_or(0)),
        Op::Simplify(_) => "simplify".into(),
    }
}

/// Entry point of the traced child: `fidget-sim e6child <seed>`
pub fn child_main(args: &[String]) -> i32 {
    unsafe {
        libc::signal(SIG_A, libc::SIG_IGN);
        libc::signal(SIG_B, libc::SIG_IGN);
        libc::signal(SIG_M, libc::SIG_IGN);
    }
    let seed: u64 = args.first().and_then(|s| s.parse().ok()).unwrap_or(0);
    let mut ch = Chooser::search(seed);
    let sc = gen_scenario(&mut ch);
    if args.get(1).map(|s| s.as_str()) == Some("describe") {
        println!(
            "backend={} kind={} fn outputs={} [{}]",
            sc.backend,
            sc.kind,
            sc.fg.outputs.len(),
            sc.fg.dag.describe(sc.fg.outputs[0])
        );
    }
    match sc.backend {
        0 => child_go::<VmFunction>(&sc, &mut ch),
        1 => child_go::<GenericVmFunction<3>>(&sc, &mut ch),
        _ => child_go::<JitFunction>(&sc, &mut ch),
    }
}

////////////////////////////////////////////////////////////////////////////////
// The tracer

#[derive(Debug)]
enum Stop {
    /// stopped by signal `sig` (signal-delivery-stop, or SIGTRAP after a step)
    Sig(i32),
    /// PTRACE_EVENT stop
    Event(i32),
    Exited(i32),
    Killed(i32),
}

fn dbg(msg: impl FnOnce() -> String) {
    if std::env::var_os("E6_DEBUG").is_some() {
        eprintln!("e6: {}", msg());
    }
}

fn wait_tid(tid: i32, block: bool) -> Option<Stop> {
    let mut status = 0i32;
    let flags = libc::__WALL | if block { 0 } else { libc::WNOHANG };
    let r = unsafe { libc::waitpid(tid, &mut status, flags) };
    if r <= 0 {
        return None;
    }
    dbg(|| format!("wait {tid} -> status {status:#x}"));
    if libc::WIFEXITED(status) {
        return Some(Stop::Exited(libc::WEXITSTATUS(status)));
    }
    if libc::WIFSIGNALED(status) {
        return Some(Stop::Killed(libc::WTERMSIG(status)));
    }
    if libc::WIFSTOPPED(status) {
        let sig = libc::WSTOPSIG(status);
        let ev = status >> 16;
        if sig == libc::SIGTRAP && ev != 0 {
            return Some(Stop::Event(ev));
        }
        return Some(Stop::Sig(sig));
    }
    None
}

fn pt(req: libc::c_uint, tid: i32, addr: usize, data: usize) -> i64 {
    unsafe { libc::ptrace(req, tid, addr, data) }
}

fn cont(tid: i32, sig: i32) {
    pt(libc::PTRACE_CONT, tid, 0, sig as usize);
}

/// True if the instruction at `code` synchronises: lock prefix, xchg with a
/// memory operand, a fence, or a syscall
fn is_sync_insn(code: &[u8; 16]) -> bool {
    let mut i = 0;
    let mut lock = false;
    while i < 12 {
        match code[i] {
            0xF0 => {
                lock = true;
                i += 1;
            }
            0x66 | 0x67 | 0x2E | 0x36 | 0x3E | 0x26 | 0x64 | 0x65 | 0xF2
            | 0xF3 => i += 1,
            _ => break,
        }
    }
    if lock {
        return true;
    }
    if (0x40..=0x4F).contains(&code[i]) {
        i += 1;
    }
    match code[i] {
        // xchg r/m, r with a memory operand is implicitly locked
        0x86 | 0x87 => (code[i + 1] >> 6) != 3,
        0x0F => match code[i + 1] {
            0x05 => true, // syscall
            0xAE => matches!(code[i + 2], 0xE8 | 0xF0 | 0xF8), // l/m/sfence
            _ => false,
        },
        _ => false,
    }
}

/// Address ranges of the executable's own text and of anonymous executable
/// mappings (JIT code) in the child
fn code_ranges(pid: i32) -> Vec<(u64, u64)> {
    let exe = std::fs::read_link(format!("/proc/{pid}/exe")).ok();
    let maps = std::fs::read_to_string(format!("/proc/{pid}/maps"))
        .unwrap_or_default();
    let mut out = vec![];
    for l in maps.lines() {
        let mut it = l.split_whitespace();
        let (Some(range), Some(perms)) = (it.next(), it.next()) else {
            continue;
        };
        if !perms.contains('x') {
            continue;
        }
        let path = l.split_whitespace().nth(5);
        let own = match (path, &exe) {
            (None, _) => true, // anonymous executable memory: JIT
            (Some(p), Some(e)) => std::path::Path::new(p) == e.as_path(),
            _ => false,
        };
        if !own {
            continue;
        }
        if let Some((a, b)) = range.split_once('-') {
            if let (Ok(a), Ok(b)) =
                (u64::from_str_radix(a, 16), u64::from_str_radix(b, 16))
            {
                out.push((a, b));
            }
        }
    }
    out
}

struct Child {
    pid: i32,
    a: i32,
    b: i32,
    proc_: std::process::Child,
    /// set when the tracer is done with the child
    done: Arc<AtomicBool>,
    /// set by the guard thread if it had to kill a child that outlived
    /// `CHILD_LIMIT` (a child normally lives a few milliseconds)
    fired: Arc<AtomicBool>,
}

const CHILD_LIMIT: std::time::Duration = std::time::Duration::from_secs(25);

impl Drop for Child {
    fn drop(&mut self) {
        self.done.store(true, Ordering::SeqCst);
        let _ = self.proc_.kill();
        // traced threads must be reaped by the tracer before the thread
        // group leader can be
        for tid in [self.a, self.b] {
            if tid > 0 {
                let mut st = 0;
                unsafe { libc::waitpid(tid, &mut st, libc::__WALL) };
            }
        }
        let _ = self.proc_.wait();
    }
}

/// Starts the child and brings it to the point where A and B are both
/// stopped at their start markers and the main thread waits in `join`
fn start_child(seed: u64) -> Result<Child, String> {
    use std::os::unix::process::CommandExt;
    let exe = std::env::current_exe().map_err(|e| e.to_string())?;
    let mut cmd = std::process::Command::new(exe);
    cmd.arg("e6child")
        .arg(seed.to_string())
        .stdin(std::process::Stdio::null())
        .stdout(std::process::Stdio::piped())
        .stderr(std::process::Stdio::null());
    unsafe {
        cmd.pre_exec(|| {
            // same addresses in every execution
            libc::personality(libc::ADDR_NO_RANDOMIZE as libc::c_ulong);
            if libc::ptrace(libc::PTRACE_TRACEME, 0, 0, 0) < 0 {
                return Err(std::io::Error::last_os_error());
            }
            Ok(())
        });
    }
    let proc_ = cmd.spawn().map_err(|e| format!("spawn: {e}"))?;
    let pid = proc_.id() as i32;
    let done = Arc::new(AtomicBool::new(false));
    let fired = Arc::new(AtomicBool::new(false));
    {
        // guard: no wait of the tracer can block for ever, because a child
        // that outlives the limit is killed, which ends every wait on it
        let (done, fired) = (done.clone(), fired.clone());
        std::thread::spawn(move || {
            let t0 = std::time::Instant::now();
            while !done.load(Ordering::SeqCst) {
                if t0.elapsed() > CHILD_LIMIT {
                    fired.store(true, Ordering::SeqCst);
                    unsafe { libc::kill(pid, libc::SIGKILL) };
                    return;
                }
                std::thread::sleep(std::time::Duration::from_millis(2));
            }
        });
    }
    let mut c = Child {
        pid,
        a: 0,
        b: 0,
        proc_,
        done,
        fired,
    };
    // exec stop
    match wait_tid(pid, true) {
        Some(Stop::Sig(libc::SIGTRAP)) => (),
        other => return Err(format!("no exec stop: {other:?}")),
    }
    pt(
        libc::PTRACE_SETOPTIONS,
        pid,
        0,
        (libc::PTRACE_O_TRACECLONE | libc::PTRACE_O_EXITKILL) as usize,
    );
    cont(pid, 0);
    for which in 0..2 {
        // the main thread clones the next worker
        let tid = loop {
            match wait_tid(pid, true) {
                Some(Stop::Event(libc::PTRACE_EVENT_CLONE)) => {
                    let mut msg: libc::c_ulong = 0;
                    pt(
                        libc::PTRACE_GETEVENTMSG,
                        pid,
                        0,
                        &mut msg as *mut _ as usize,
                    );
                    break msg as i32;
                }
                Some(Stop::Sig(s)) => cont(pid, if s == libc::SIGTRAP { 0 } else { s }),
                Some(Stop::Exited(code)) => {
                    return Err(format!("child exited early with {code}"));
                }
                other => return Err(format!("unexpected stop of main: {other:?}")),
            }
        };
        // the new thread starts in a stop of its own
        match wait_tid(tid, true) {
            Some(Stop::Sig(_)) | Some(Stop::Event(_)) => (),
            other => return Err(format!("new thread: {other:?}")),
        }
        cont(tid, 0);
        cont(pid, 0);
        // ... and runs to its start marker
        let want = if which == 0 { SIG_A } else { SIG_B };
        loop {
            match wait_tid(tid, true) {
                Some(Stop::Sig(s)) if s == want => break,
                Some(Stop::Sig(s)) => cont(tid, if s == libc::SIGTRAP { 0 } else { s }),
                other => return Err(format!("worker before marker: {other:?}")),
            }
        }
        if which == 0 {
            c.a = tid;
        } else {
            c.b = tid;
        }
    }
    // the main thread parks at its own marker and stays there
    loop {
        match wait_tid(pid, true) {
            Some(Stop::Sig(s)) if s == SIG_M => break,
            Some(Stop::Sig(s)) => cont(pid, if s == libc::SIGTRAP { 0 } else { s }),
            Some(Stop::Event(_)) => cont(pid, 0),
            other => return Err(format!("main before its marker: {other:?}")),
        }
    }
    Ok(c)
}

enum StepEnd {
    /// stopped after the requested number of steps
    Reached,
    /// A raised its end marker after this many steps
    Done(u64),
    Failed(String),
}

fn gp_regs(r: &libc::user_regs_struct) -> [u64; 16] {
    [
        r.rax, r.rcx, r.rdx, r.rbx, r.rsp, r.rbp, r.rsi, r.rdi, r.r8, r.r9, r.r10,
        r.r11, r.r12, r.r13, r.r14, r.r15,
    ]
}

/// Single-steps thread `tid` `n` times from where it is stopped (a pending
/// marker signal is suppressed).  With `inspect`, calls it with (step index,
/// registers, instruction bytes) before each step.  `end_sig` is the thread's
/// marker signal.
fn step_thread(
    tid: i32,
    end_sig: i32,
    n: u64,
    mut inspect: Option<&mut dyn FnMut(u64, &libc::user_regs_struct, &[u8; 16])>,
) -> StepEnd {
    for i in 0..n {
        if let Some(f) = inspect.as_mut() {
            let mut regs: libc::user_regs_struct = unsafe { std::mem::zeroed() };
            pt(libc::PTRACE_GETREGS, tid, 0, &mut regs as *mut _ as usize);
            let mut code = [0u8; 16];
            for w in 0..2 {
                let v = pt(
                    libc::PTRACE_PEEKTEXT,
                    tid,
                    regs.rip as usize + 8 * w,
                    0,
                );
                code[8 * w..8 * w + 8].copy_from_slice(&v.to_le_bytes());
            }
            f(i, &regs, &code);
        }
        pt(libc::PTRACE_SINGLESTEP, tid, 0, 0);
        match wait_tid(tid, true) {
            Some(Stop::Sig(libc::SIGTRAP)) => (),
            Some(Stop::Sig(s)) if s == end_sig => return StepEnd::Done(i + 1),
            Some(Stop::Sig(s)) => {
                // another signal (SIGSEGV ...): deliver it and let the child die
                cont(tid, s);
                return StepEnd::Failed(format!("thread {tid} got signal {s} at step {i}"));
            }
            other => return StepEnd::Failed(format!("thread {tid} at step {i}: {other:?}")),
        }
    }
    StepEnd::Reached
}

fn step_a(c: &Child, n: u64) -> StepEnd {
    step_thread(c.a, SIG_A, n, None)
}

/// Outcome of one traced execution
#[derive(Debug, Clone, PartialEq, Eq)]
pub enum Verdict {
    Equal,
    /// solo panicked or the function could not be built: nothing to compare
    Skipped,
    Differs(String),
    /// the child died of a signal
    Crashed(i32),
    Harness(String),
}

/// Lets the child run to its end from the current state.  If A is frozen
/// before its end marker (`a_done == false`): B runs its whole list, then A
/// resumes; a B that cannot finish because it waits for something the frozen A
/// holds is frozen in turn until A is done.
fn finish(mut c: Child, a_done: bool, b_blocked: &mut bool) -> Verdict {
    let resume = |s: i32| -> i32 {
        if s == libc::SIGTRAP || s == libc::SIGSTOP || s == SIG_A || s == SIG_B || s == SIG_M {
            0
        } else {
            s
        }
    };
    if !a_done {
        cont(c.b, 0);
        let t0 = std::time::Instant::now();
        let mut b_done = false;
        let mut b_gone = false;
        let mut futex_polls = 0;
        loop {
            match wait_tid(c.b, false) {
                Some(Stop::Sig(s)) if s == SIG_B => {
                    b_done = true;
                    break;
                }
                Some(Stop::Sig(s)) => cont(c.b, resume(s)),
                Some(Stop::Event(_)) => cont(c.b, 0),
                Some(Stop::Exited(_)) | Some(Stop::Killed(_)) => {
                    b_gone = true;
                    break;
                }
                None => {
                    // B sleeping in a futex wait can only be waiting for the
                    // frozen A (every other thread of the child is stopped)
                    let in_futex = std::fs::read_to_string(format!(
                        "/proc/{}/task/{}/syscall",
                        c.pid, c.b
                    ))
                    .map(|t| t.starts_with("202 "))
                    .unwrap_or(false);
                    futex_polls = if in_futex { futex_polls + 1 } else { 0 };
                    if futex_polls >= 4
                        || t0.elapsed() > std::time::Duration::from_millis(1500)
                    {
                        // B waits for something A holds: freeze B, let A finish
                        *b_blocked = true;
                        unsafe {
                            libc::syscall(libc::SYS_tgkill, c.pid, c.b, libc::SIGSTOP);
                        }
                        loop {
                            match wait_tid(c.b, true) {
                                Some(Stop::Sig(libc::SIGSTOP)) => break,
                                Some(Stop::Sig(s)) if s == SIG_B => {
                                    b_done = true;
                                    break;
                                }
                                Some(Stop::Sig(s)) => cont(c.b, resume(s)),
                                Some(Stop::Event(_)) => cont(c.b, 0),
                                _ => {
                                    b_gone = true;
                                    break;
                                }
                            }
                        }
                        break;
                    }
                    std::thread::sleep(std::time::Duration::from_micros(100));
                }
            }
        }
        // A runs to its end marker (B is stopped: at its end marker, or frozen)
        cont(c.a, 0);
        loop {
            match wait_tid(c.a, true) {
                Some(Stop::Sig(s)) if s == SIG_A => break,
                Some(Stop::Sig(s)) => cont(c.a, resume(s)),
                Some(Stop::Event(_)) => cont(c.a, 0),
                _ => break,
            }
        }
        let _ = (b_done, b_gone);
    }
    // everything runs to the end
    cont(c.pid, 0);
    cont(c.a, 0);
    cont(c.b, 0);
    let t0 = std::time::Instant::now();
    let status = loop {
        for tid in [c.a, c.b] {
            match wait_tid(tid, false) {
                Some(Stop::Sig(s)) => cont(tid, resume(s)),
                Some(Stop::Event(_)) => cont(tid, 0),
                _ => (),
            }
        }
        match wait_tid(c.pid, false) {
            Some(Stop::Exited(code)) => break Ok(code),
            Some(Stop::Killed(sig)) => break Err(sig),
            Some(Stop::Sig(s)) => cont(c.pid, resume(s)),
            Some(Stop::Event(_)) => cont(c.pid, 0),
            None => {
                if t0.elapsed() > std::time::Duration::from_secs(30) {
                    return Verdict::Harness("child did not exit".into());
                }
                std::thread::sleep(std::time::Duration::from_micros(100));
            }
        }
    };
    let mut out = String::new();
    if let Some(mut so) = c.proc_.stdout.take() {
        use std::io::Read;
        let _ = so.read_to_string(&mut out);
    }
    match status {
        Ok(0) => Verdict::Equal,
        Ok(4) => Verdict::Skipped,
        Ok(3) => Verdict::Differs(
            out.lines()
                .find(|l| l.starts_with("E6-"))
                .unwrap_or("results differ")
                .to_string(),
        ),
        Ok(101) => Verdict::Differs(format!("child panicked: {}", out.trim())),
        Ok(code) => Verdict::Harness(format!("child exit code {code}")),
        Err(_) if c.fired.load(Ordering::SeqCst) => {
            Verdict::Harness("child outlived the guard limit and was killed".into())
        }
        Err(sig) => Verdict::Crashed(sig),
    }
}

////////////////////////////////////////////////////////////////////////////////
// Synchronising instructions of the executable (static list) and breakpoints

/// Virtual addresses (ELF, before relocation) of every `lock`-prefixed
/// instruction, `xchg` with a memory operand, fence and `syscall` in this
/// executable, from `objdump -d`.  Cached next to the executable.
fn sync_sites() -> &'static [u64] {
    static SITES: std::sync::OnceLock<Vec<u64>> = std::sync::OnceLock::new();
    SITES.get_or_init(|| {
        let Ok(exe) = std::env::current_exe() else { return vec![] };
        let Ok(meta) = std::fs::metadata(&exe) else { return vec![] };
        let stamp = format!(
            "{} {:?}",
            meta.len(),
            meta.modified().ok().and_then(|t| t
                .duration_since(std::time::UNIX_EPOCH)
                .ok()
                .map(|d| d.as_nanos()))
        );
        let cache = exe.with_extension("syncsites");
        if let Ok(text) = std::fs::read_to_string(&cache) {
            let mut lines = text.lines();
            if lines.next() == Some(stamp.as_str()) {
                return lines.filter_map(|l| u64::from_str_radix(l, 16).ok()).collect();
            }
        }
        let out = std::process::Command::new("objdump")
            .args(["-d", "--no-show-raw-insn"])
            .arg(&exe)
            .output();
        let Ok(out) = out else { return vec![] };
        let text = String::from_utf8_lossy(&out.stdout);
        let mut sites = vec![];
        for l in text.lines() {
            let Some((addr, insn)) = l.split_once(":\t") else { continue };
            let insn = insn.trim_start();
            let sync = insn.starts_with("lock ")
                || (insn.starts_with("xchg") && insn.contains('('))
                || insn.starts_with("mfence")
                || insn.starts_with("syscall");
            if sync {
                if let Ok(a) = u64::from_str_radix(addr.trim(), 16) {
                    sites.push(a);
                }
            }
        }
        let mut body = stamp.clone();
        for a in &sites {
            body.push_str(&format!("\n{a:x}"));
        }
        let tmp = cache.with_extension(format!("syncsites.{}", std::process::id()));
        if std::fs::write(&tmp, body).is_ok() {
            let _ = std::fs::rename(&tmp, &cache);
        }
        sites
    })
}

/// Load address of the executable in the child (ASLR is off, but read it
/// rather than assume it)
fn load_base(pid: i32) -> Option<u64> {
    let exe = std::fs::read_link(format!("/proc/{pid}/exe")).ok()?;
    let maps = std::fs::read_to_string(format!("/proc/{pid}/maps")).ok()?;
    for l in maps.lines() {
        let f: Vec<&str> = l.split_whitespace().collect();
        if f.len() >= 6 && std::path::Path::new(f[5]) == exe.as_path() && f[2] == "00000000" {
            return u64::from_str_radix(f[0].split('-').next()?, 16).ok();
        }
    }
    None
}

fn peek(tid: i32, addr: u64) -> u64 {
    pt(libc::PTRACE_PEEKTEXT, tid, addr as usize, 0) as u64
}
fn poke(tid: i32, addr: u64, v: u64) {
    pt(libc::PTRACE_POKETEXT, tid, addr as usize, v as usize);
}
/// Plants int3 at `addr`, returns the byte it replaced
fn set_bp(tid: i32, addr: u64) -> u8 {
    let w = peek(tid, addr);
    poke(tid, addr, (w & !0xff) | 0xCC);
    w as u8
}
fn clear_bp(tid: i32, addr: u64, orig: u8) {
    let w = peek(tid, addr);
    poke(tid, addr, (w & !0xff) | orig as u64);
}
fn get_rip(tid: i32) -> u64 {
    let mut regs: libc::user_regs_struct = unsafe { std::mem::zeroed() };
    pt(libc::PTRACE_GETREGS, tid, 0, &mut regs as *mut _ as usize);
    regs.rip
}
fn set_rip(tid: i32, rip: u64) {
    let mut regs: libc::user_regs_struct = unsafe { std::mem::zeroed() };
    pt(libc::PTRACE_GETREGS, tid, 0, &mut regs as *mut _ as usize);
    regs.rip = rip;
    pt(libc::PTRACE_SETREGS, tid, 0, &regs as *const _ as usize);
}

/// Runs A (continuously) from where it is stopped until it has hit the
/// planted breakpoints `want` times (`None`: until its end marker).  Returns the
/// breakpoint addresses hit, in order; when `want` is reached A is stopped
/// *before* executing the instruction at the last address and every
/// breakpoint is removed again.
fn run_a_to(
    c: &Child,
    bps: &std::collections::HashMap<u64, u8>,
    want: Option<usize>,
) -> Result<(Vec<u64>, bool), String> {
    let mut hits = vec![];
    cont(c.a, 0);
    loop {
        match wait_tid(c.a, true) {
            Some(Stop::Sig(libc::SIGTRAP)) => {
                let site = get_rip(c.a) - 1;
                let Some(orig) = bps.get(&site) else {
                    return Err(format!("SIGTRAP at {site:#x}, not a breakpoint"));
                };
                hits.push(site);
                clear_bp(c.a, site, *orig);
                set_rip(c.a, site);
                if Some(hits.len()) == want {
                    for (a, o) in bps {
                        if *a != site {
                            clear_bp(c.a, *a, *o);
                        }
                    }
                    return Ok((hits, false));
                }
                // step over the original instruction, re-arm, go on
                pt(libc::PTRACE_SINGLESTEP, c.a, 0, 0);
                match wait_tid(c.a, true) {
                    Some(Stop::Sig(libc::SIGTRAP)) => (),
                    Some(Stop::Sig(s)) if s == SIG_A => return Ok((hits, true)),
                    other => return Err(format!("stepping over a breakpoint: {other:?}")),
                }
                set_bp(c.a, site);
                cont(c.a, 0);
            }
            Some(Stop::Sig(s)) if s == SIG_A => return Ok((hits, true)),
            Some(Stop::Sig(s)) => {
                cont(c.a, s);
                return Err(format!("thread A got signal {s}"));
            }
            other => return Err(format!("thread A: {other:?}")),
        }
    }
}

fn resume_sig(s: i32) -> i32 {
    if s == libc::SIGTRAP || s == libc::SIGSTOP || s == SIG_A || s == SIG_B || s == SIG_M {
        0
    } else {
        s
    }
}

/// True if thread `tid` of the child sleeps in a futex wait
fn in_futex(pid: i32, tid: i32) -> bool {
    std::fs::read_to_string(format!("/proc/{pid}/task/{tid}/syscall"))
        .map(|t| t.starts_with("202 "))
        .unwrap_or(false)
}

/// Stops a running thread of the child with SIGSTOP and waits for the stop.
/// Returns the marker signal if the thread reached its marker instead.
fn freeze(c: &Child, tid: i32, marker_sig: i32) -> Option<i32> {
    unsafe {
        libc::syscall(libc::SYS_tgkill, c.pid, tid, libc::SIGSTOP);
    }
    loop {
        match wait_tid(tid, true) {
            Some(Stop::Sig(libc::SIGSTOP)) => return None,
            Some(Stop::Sig(s)) if s == marker_sig => return Some(s),
            Some(Stop::Sig(s)) => cont(tid, resume_sig(s)),
            Some(Stop::Event(_)) => cont(tid, 0),
            _ => return None,
        }
    }
}

enum BState {
    /// stopped just before its k-th synchronising instruction
    Frozen,
    /// reached its end marker first
    Done,
    /// sleeps in a futex wait (needs something the frozen A holds); stopped
    Blocked,
    Gone,
}

/// Second preemption: with A frozen, B runs until it is about to execute the
/// `k`-th synchronising instruction of its list (breakpoints on every site of
/// the executable, planted and removed through the stopped thread A)
fn run_b_to_kth(c: &Child, k: usize) -> Result<BState, String> {
    let base = load_base(c.pid).ok_or("no load base")?;
    let mut bps = std::collections::HashMap::new();
    for v in sync_sites() {
        let a = base + v;
        bps.insert(a, set_bp(c.a, a));
    }
    let clear_all = |except: Option<u64>| {
        for (a, o) in &bps {
            if Some(*a) != except {
                clear_bp(c.a, *a, *o);
            }
        }
    };
    let mut hits = 0usize;
    let mut futex_polls = 0;
    let t0 = std::time::Instant::now();
    cont(c.b, 0);
    loop {
        match wait_tid(c.b, false) {
            Some(Stop::Sig(libc::SIGTRAP)) => {
                let site = get_rip(c.b) - 1;
                let Some(orig) = bps.get(&site) else {
                    clear_all(None);
                    return Err(format!("thread B: SIGTRAP at {site:#x}, not a breakpoint"));
                };
                clear_bp(c.a, site, *orig);
                set_rip(c.b, site);
                hits += 1;
                if hits >= k {
                    clear_all(Some(site));
                    return Ok(BState::Frozen);
                }
                pt(libc::PTRACE_SINGLESTEP, c.b, 0, 0);
                match wait_tid(c.b, true) {
                    Some(Stop::Sig(libc::SIGTRAP)) => (),
                    Some(Stop::Sig(s)) if s == SIG_B => {
                        clear_all(Some(site));
                        return Ok(BState::Done);
                    }
                    other => {
                        clear_all(Some(site));
                        return Err(format!("thread B stepping over a breakpoint: {other:?}"));
                    }
                }
                set_bp(c.a, site);
                cont(c.b, 0);
            }
            Some(Stop::Sig(s)) if s == SIG_B => {
                clear_all(None);
                return Ok(BState::Done);
            }
            Some(Stop::Sig(s)) => cont(c.b, resume_sig(s)),
            Some(Stop::Event(_)) => cont(c.b, 0),
            Some(Stop::Exited(_)) | Some(Stop::Killed(_)) => {
                return Ok(BState::Gone);
            }
            None => {
                futex_polls = if in_futex(c.pid, c.b) { futex_polls + 1 } else { 0 };
                if futex_polls >= 4 || t0.elapsed() > std::time::Duration::from_millis(1500) {
                    let at_marker = freeze(c, c.b, SIG_B);
                    clear_all(None);
                    return Ok(if at_marker.is_some() { BState::Done } else { BState::Blocked });
                }
                std::thread::sleep(std::time::Duration::from_micros(100));
            }
        }
    }
}

/// True if the instruction is a compare-and-swap (`cmpxchg`, `cmpxchg8b/16b`)
fn is_cas(code: &[u8; 16]) -> bool {
    let mut i = 0;
    while i < 8 && matches!(code[i], 0xF0 | 0x66 | 0x67 | 0x2E | 0x36 | 0x3E | 0x26 | 0xF2 | 0xF3) {
        i += 1;
    }
    if (0x40..=0x4F).contains(&code[i]) {
        i += 1;
    }
    code[i] == 0x0F
        && (matches!(code[i + 1], 0xB0 | 0xB1)
            || (code[i + 1] == 0xC7 && (code[i + 2] >> 3) & 7 == 1 && (code[i + 2] >> 6) != 3))
}

fn code_at(tid: i32, rip: u64) -> [u8; 16] {
    let mut code = [0u8; 16];
    for w in 0..2u64 {
        code[8 * w as usize..8 * w as usize + 8].copy_from_slice(&peek(tid, rip + 8 * w).to_le_bytes());
    }
    code
}

fn regs_of(tid: i32) -> libc::user_regs_struct {
    let mut regs: libc::user_regs_struct = unsafe { std::mem::zeroed() };
    pt(libc::PTRACE_GETREGS, tid, 0, &mut regs as *mut _ as usize);
    regs
}

/// The 32-bit word of the child's memory that contains `ea`
fn word_at(tid: i32, ea: u64) -> u64 {
    let v = peek(tid, ea & !7);
    if ea & 4 != 0 { v >> 32 } else { v & 0xffff_ffff }
}

/// Cell-directed second preemption.  With A frozen just before an instruction
/// that operates on address `ea`: B runs with breakpoints on every
/// synchronising instruction of the executable; the memory operand of each one
/// it executes is decoded, and those on the same 4-byte word as `ea` are
/// numbered 1, 2, ...; the word's value after each of them is returned.  With
/// `stop_after = Some(j)` B stays frozen just after the j-th.
fn run_b_cell(
    c: &Child,
    ea: u64,
    stop_after: Option<usize>,
) -> Result<(BState, Vec<u64>), String> {
    let base = load_base(c.pid).ok_or("no load base")?;
    let mut bps = std::collections::HashMap::new();
    for v in sync_sites() {
        let a = base + v;
        bps.insert(a, set_bp(c.a, a));
    }
    let clear_all = |except: Option<u64>| {
        for (a, o) in &bps {
            if Some(*a) != except {
                clear_bp(c.a, *a, *o);
            }
        }
    };
    let mut values = vec![];
    let mut futex_polls = 0;
    let t0 = std::time::Instant::now();
    cont(c.b, 0);
    loop {
        match wait_tid(c.b, false) {
            Some(Stop::Sig(libc::SIGTRAP)) => {
                let site = get_rip(c.b) - 1;
                let Some(orig) = bps.get(&site) else {
                    clear_all(None);
                    return Err(format!("thread B: SIGTRAP at {site:#x}, not a breakpoint"));
                };
                clear_bp(c.a, site, *orig);
                set_rip(c.b, site);
                let regs = regs_of(c.b);
                let mem = crate::x86mem::decode(&code_at(c.b, site));
                pt(libc::PTRACE_SINGLESTEP, c.b, 0, 0);
                match wait_tid(c.b, true) {
                    Some(Stop::Sig(libc::SIGTRAP)) => (),
                    Some(Stop::Sig(s)) if s == SIG_B => {
                        clear_all(Some(site));
                        return Ok((BState::Done, values));
                    }
                    other => {
                        clear_all(Some(site));
                        return Err(format!("thread B stepping over a breakpoint: {other:?}"));
                    }
                }
                if let Some(m) = mem {
                    let b_ea = crate::x86mem::effective(&m, &gp_regs(&regs), get_rip(c.b));
                    if b_ea & !3 == ea & !3 {
                        values.push(word_at(c.b, ea));
                        if Some(values.len()) == stop_after {
                            clear_all(Some(site));
                            return Ok((BState::Frozen, values));
                        }
                    }
                }
                set_bp(c.a, site);
                cont(c.b, 0);
            }
            Some(Stop::Sig(s)) if s == SIG_B => {
                clear_all(None);
                return Ok((BState::Done, values));
            }
            Some(Stop::Sig(s)) => cont(c.b, resume_sig(s)),
            Some(Stop::Event(_)) => cont(c.b, 0),
            Some(Stop::Exited(_)) | Some(Stop::Killed(_)) => {
                return Ok((BState::Gone, values));
            }
            None => {
                futex_polls = if in_futex(c.pid, c.b) { futex_polls + 1 } else { 0 };
                if futex_polls >= 4 || t0.elapsed() > std::time::Duration::from_millis(3000) {
                    let at_marker = freeze(c, c.b, SIG_B);
                    clear_all(None);
                    return Ok((
                        if at_marker.is_some() { BState::Done } else { BState::Blocked },
                        values,
                    ));
                }
                std::thread::sleep(std::time::Duration::from_micros(100));
            }
        }
    }
}

/// Runs A of a fresh child to `point` (which must have `extra == 0`)
fn child_at(seed: u64, point: Point) -> Result<Child, String> {
    let c = start_child(seed)?;
    let mut bps = std::collections::HashMap::new();
    bps.insert(point.addr, set_bp(c.a, point.addr));
    match run_a_to(&c, &bps, Some(point.nth + 1))? {
        (_, false) => Ok(c),
        (_, true) => Err("thread A finished before the preemption point".into()),
    }
}

/// The address the instruction A is about to execute at `point` operates on
/// (`None`: no memory operand the decoder reports)
fn find_cell(seed: u64, point: Point) -> Result<Option<u64>, String> {
    let c = child_at(seed, point)?;
    let regs = regs_of(c.a);
    let Some(m) = crate::x86mem::decode(&code_at(c.a, regs.rip)) else { return Ok(None) };
    let next = if m.rip_rel {
        // the length of the instruction: step over it (this child is only a scout)
        pt(libc::PTRACE_SINGLESTEP, c.a, 0, 0);
        match wait_tid(c.a, true) {
            Some(Stop::Sig(libc::SIGTRAP)) => get_rip(c.a),
            other => return Err(format!("scout step: {other:?}")),
        }
    } else {
        0
    };
    Ok(Some(crate::x86mem::effective(&m, &gp_regs(&regs), next)))
}

/// Scout execution for the cell-directed mode: A frozen just before `point`,
/// B runs its whole list under observation.  Returns the verdict of that
/// (single-preemption) execution, whether B was blocked by A, the number of
/// B's synchronising accesses to the word at `ea`, and the 1-based indices
/// of those after which the word again held the value it had when A was frozen
/// although B had changed it in between: the instants at which a delayed
/// compare-and-swap of A would succeed on a value that went away and came back
fn scout(seed: u64, point: Point, ea: u64) -> Result<(Verdict, bool, usize, Vec<usize>), String> {
    let c = child_at(seed, point)?;
    let v_a = word_at(c.a, ea);
    let (state, values) = run_b_cell(&c, ea, None)?;
    let mut blocked = false;
    if matches!(state, BState::Blocked) {
        // B waits for the frozen A: A finishes first
        blocked = true;
        cont(c.a, 0);
        loop {
            match wait_tid(c.a, true) {
                Some(Stop::Sig(s)) if s == SIG_A => break,
                Some(Stop::Sig(s)) => cont(c.a, resume_sig(s)),
                Some(Stop::Event(_)) => cont(c.a, 0),
                _ => break,
            }
        }
    }
    let v = finish(c, blocked, &mut blocked);
    let mut changed = false;
    let mut restoring = vec![];
    for (k, val) in values.iter().enumerate() {
        if *val != v_a {
            changed = true;
        } else if changed {
            restoring.push(k + 1);
        }
    }
    Ok((v, blocked, values.len(), restoring))
}

/// Runs thread `tid` (marker signal `end_sig`) on until it is about to execute
/// the `k`-th synchronising instruction from here; breakpoints are planted
/// and removed through `via`, the other, stopped worker
fn run_to_kth(c: &Child, tid: i32, via: i32, end_sig: i32, k: usize) -> Result<BState, String> {
    let base = load_base(c.pid).ok_or("no load base")?;
    let mut bps = std::collections::HashMap::new();
    for v in sync_sites() {
        let a = base + v;
        bps.insert(a, set_bp(via, a));
    }
    let clear_all = |except: Option<u64>| {
        for (a, o) in &bps {
            if Some(*a) != except {
                clear_bp(via, *a, *o);
            }
        }
    };
    let mut hits = 0usize;
    let mut futex_polls = 0;
    let t0 = std::time::Instant::now();
    cont(tid, 0);
    loop {
        match wait_tid(tid, false) {
            Some(Stop::Sig(libc::SIGTRAP)) => {
                let site = get_rip(tid) - 1;
                let Some(orig) = bps.get(&site) else {
                    clear_all(None);
                    return Err(format!("thread {tid}: SIGTRAP at {site:#x}, not a breakpoint"));
                };
                clear_bp(via, site, *orig);
                set_rip(tid, site);
                hits += 1;
                if hits >= k {
                    clear_all(Some(site));
                    return Ok(BState::Frozen);
                }
                pt(libc::PTRACE_SINGLESTEP, tid, 0, 0);
                match wait_tid(tid, true) {
                    Some(Stop::Sig(libc::SIGTRAP)) => (),
                    Some(Stop::Sig(s)) if s == end_sig => {
                        clear_all(Some(site));
                        return Ok(BState::Done);
                    }
                    other => {
                        clear_all(Some(site));
                        return Err(format!("thread {tid} stepping over a breakpoint: {other:?}"));
                    }
                }
                set_bp(via, site);
                cont(tid, 0);
            }
            Some(Stop::Sig(s)) if s == end_sig => {
                clear_all(None);
                return Ok(BState::Done);
            }
            Some(Stop::Sig(s)) => cont(tid, resume_sig(s)),
            Some(Stop::Event(_)) => cont(tid, 0),
            Some(Stop::Exited(_)) | Some(Stop::Killed(_)) => return Ok(BState::Gone),
            None => {
                futex_polls = if in_futex(c.pid, tid) { futex_polls + 1 } else { 0 };
                if futex_polls >= 4 || t0.elapsed() > std::time::Duration::from_millis(1500) {
                    let at_marker = freeze(c, tid, end_sig);
                    clear_all(None);
                    return Ok(if at_marker.is_some() { BState::Done } else { BState::Blocked });
                }
                std::thread::sleep(std::time::Duration::from_micros(100));
            }
        }
    }
}

/// Both workers stopped somewhere in their lists (or at their end markers:
/// `a_done` / `b_done`): the one named first runs to its end marker (if it
/// ends up waiting for something the other holds it is frozen, the other one
/// finishes, it resumes), then the other one
fn finish_in_order(c: &Child, a_first: bool, a_done: bool, b_done: bool) {
    let run_to_end = |tid: i32, sig: i32| -> bool {
        // true: reached its end marker; false: blocked and frozen
        cont(tid, 0);
        let mut futex_polls = 0;
        let t0 = std::time::Instant::now();
        loop {
            match wait_tid(tid, false) {
                Some(Stop::Sig(s)) if s == sig => return true,
                Some(Stop::Sig(s)) => cont(tid, resume_sig(s)),
                Some(Stop::Event(_)) => cont(tid, 0),
                Some(_) => return true,
                None => {
                    futex_polls = if in_futex(c.pid, tid) { futex_polls + 1 } else { 0 };
                    if futex_polls >= 4 || t0.elapsed() > std::time::Duration::from_millis(1500) {
                        return freeze(c, tid, sig).is_some();
                    }
                    std::thread::sleep(std::time::Duration::from_micros(100));
                }
            }
        }
    };
    let mut order = [(c.a, SIG_A, a_done), (c.b, SIG_B, b_done)];
    if !a_first {
        order.swap(0, 1);
    }
    let mut pending = vec![];
    for (tid, sig, done) in order {
        if !done && !run_to_end(tid, sig) {
            pending.push((tid, sig));
        }
    }
    for (tid, sig) in pending {
        // blocked before: whatever it waited for is released now
        cont(tid, 0);
        loop {
            match wait_tid(tid, true) {
                Some(Stop::Sig(s)) if s == sig => break,
                Some(Stop::Sig(s)) => cont(tid, resume_sig(s)),
                Some(Stop::Event(_)) => cont(tid, 0),
                _ => break,
            }
        }
    }
}

/// With B frozen in the middle of its list: A runs to its end marker (if A
/// ends up waiting for something B holds, A is frozen, B finishes, A resumes),
/// then B runs to its end marker
fn a_then_b_to_markers(c: &Child) {
    cont(c.a, 0);
    let mut futex_polls = 0;
    let t0 = std::time::Instant::now();
    let mut a_done = false;
    loop {
        match wait_tid(c.a, false) {
            Some(Stop::Sig(s)) if s == SIG_A => {
                a_done = true;
                break;
            }
            Some(Stop::Sig(s)) => cont(c.a, resume_sig(s)),
            Some(Stop::Event(_)) => cont(c.a, 0),
            Some(_) => break,
            None => {
                futex_polls = if in_futex(c.pid, c.a) { futex_polls + 1 } else { 0 };
                if futex_polls >= 4 || t0.elapsed() > std::time::Duration::from_millis(1500) {
                    a_done = freeze(c, c.a, SIG_A).is_some();
                    break;
                }
                std::thread::sleep(std::time::Duration::from_micros(100));
            }
        }
    }
    // B to its end marker
    cont(c.b, 0);
    loop {
        match wait_tid(c.b, true) {
            Some(Stop::Sig(s)) if s == SIG_B => break,
            Some(Stop::Sig(s)) => cont(c.b, resume_sig(s)),
            Some(Stop::Event(_)) => cont(c.b, 0),
            _ => break,
        }
    }
    if !a_done {
        cont(c.a, 0);
        loop {
            match wait_tid(c.a, true) {
                Some(Stop::Sig(s)) if s == SIG_A => break,
                Some(Stop::Sig(s)) => cont(c.a, resume_sig(s)),
                Some(Stop::Event(_)) => cont(c.a, 0),
                _ => break,
            }
        }
    }
}

/// Discovery: the sequence of synchronising instructions (absolute addresses
/// inside the executable) that thread A executes between its markers
pub fn discover(seed: u64) -> Result<Option<Vec<u64>>, String> {
    Ok(discover_cas(seed)?.map(|(s, _)| s))
}

/// Discovery that also tells which of the sites are compare-and-swap
/// instructions
pub fn discover_cas(
    seed: u64,
) -> Result<Option<(Vec<u64>, std::collections::HashSet<u64>)>, String> {
    let c = match start_child(seed) {
        Ok(c) => c,
        Err(e) if e.contains("exited early with 4") => return Ok(None),
        Err(e) => return Err(e),
    };
    let base = load_base(c.pid).ok_or("no load base")?;
    let mut bps = std::collections::HashMap::new();
    for v in sync_sites() {
        let a = base + v;
        bps.insert(a, set_bp(c.a, a));
    }
    let (hits, done) = run_a_to(&c, &bps, None)?;
    if !done {
        return Err("discovery ended before A's end marker".into());
    }
    let mut cas = std::collections::HashSet::new();
    for a in &hits {
        // the breakpoints are still planted: the first byte is the saved one
        let mut code = code_at(c.a, *a);
        if let Some(o) = bps.get(a) {
            code[0] = *o;
        }
        if is_cas(&code) {
            cas.insert(*a);
        }
    }
    // the child is killed here (Drop): B never ran with breakpoints planted
    Ok(Some((hits, cas)))
}

/// Memory of the child that both worker threads can reach and that existed
/// before they started: the main heap and the executable's writable segments
fn shared_ranges(pid: i32) -> Vec<(u64, u64)> {
    let exe = std::fs::read_link(format!("/proc/{pid}/exe")).ok();
    let maps = std::fs::read_to_string(format!("/proc/{pid}/maps"))
        .unwrap_or_default();
    let mut out = vec![];
    let mut exe_end = 0u64;
    for l in maps.lines() {
        let f: Vec<&str> = l.split_whitespace().collect();
        if f.len() < 5 {
            continue;
        }
        let Some((a, b)) = f[0].split_once('-') else { continue };
        let (Ok(a), Ok(b)) = (u64::from_str_radix(a, 16), u64::from_str_radix(b, 16))
        else {
            continue;
        };
        let path = f.get(5).copied();
        let writable = f[1].contains('w');
        let is_exe = match (path, &exe) {
            (Some(p), Some(e)) => std::path::Path::new(p) == e.as_path(),
            _ => false,
        };
        if is_exe {
            exe_end = b;
            if writable {
                out.push((a, b));
            }
        } else if path == Some("[heap]") || (path.is_none() && a == exe_end && writable) {
            // the main heap; the bss right behind the executable's data
            out.push((a, b));
        }
    }
    out
}

/// One access of a stepped thread to shared memory
#[derive(Debug, Clone, Copy)]
struct Access {
    /// address of the instruction and how many times it had executed before
    /// (so that (rip, nth) names the step)
    rip: u64,
    nth: usize,
    /// accessed address rounded down to 8 bytes
    key: u64,
    write: bool,
}

/// Deep discovery: single-steps one worker (A or B, the other one stays at its
/// start marker) through its whole list, decoding every instruction, and
/// returns its accesses to shared memory made from the code under test
fn shared_accesses(seed: u64, which_b: bool, max_steps: u64) -> Result<Option<Vec<Access>>, String> {
    let c = match start_child(seed) {
        Ok(c) => c,
        Err(e) if e.contains("exited early with 4") => return Ok(None),
        Err(e) => return Err(e),
    };
    let code = code_ranges(c.pid);
    let shared = shared_ranges(c.pid);
    let (tid, sig) = if which_b { (c.b, SIG_B) } else { (c.a, SIG_A) };
    let mut seen: std::collections::HashMap<u64, usize> = Default::default();
    let mut out: Vec<Access> = vec![];
    // a rip-relative operand is resolved one step later, when the address of
    // the next instruction is known
    let mut pending: Option<(crate::x86mem::Mem, [u64; 16], u64, usize)> = None;
    let mut note = |m: &crate::x86mem::Mem, regs: &[u64; 16], next: u64, rip: u64, nth: usize, out: &mut Vec<Access>| {
        let ea = crate::x86mem::effective(m, regs, next);
        if shared.iter().any(|(a, b)| ea >= *a && ea < *b) {
            if m.read && !m.write {
                out.push(Access { rip, nth, key: ea & !7, write: false });
            } else {
                out.push(Access { rip, nth, key: ea & !7, write: true });
            }
        }
    };
    let mut f = |_i: u64, r: &libc::user_regs_struct, bytes: &[u8; 16]| {
        let rip = r.rip;
        if let Some((m, regs, prip, nth)) = pending.take() {
            let d = rip.wrapping_sub(prip);
            if (1..=15).contains(&d) {
                note(&m, &regs, rip, prip, nth, &mut out);
            }
        }
        let nth = {
            let e = seen.entry(rip).or_insert(0);
            *e += 1;
            *e - 1
        };
        if !code.iter().any(|(a, b)| rip >= *a && rip < *b) {
            return;
        }
        if let Some(m) = crate::x86mem::decode(bytes) {
            let regs = gp_regs(r);
            if m.rip_rel {
                pending = Some((m, regs, rip, nth));
            } else {
                note(&m, &regs, 0, rip, nth, &mut out);
            }
        }
    };
    match step_thread(tid, sig, max_steps, Some(&mut f)) {
        StepEnd::Done(_) => Ok(Some(out)),
        StepEnd::Reached => Ok(None), // too long for a deep pass
        StepEnd::Failed(e) => Err(e),
    }
}

/// Where thread A is frozen in a trial: just before the `nth` (0-based)
/// execution of the instruction at `addr`, plus `extra` single steps
#[derive(Debug, Clone, Copy, PartialEq, Eq, PartialOrd, Ord, Hash)]
pub struct Point {
    pub addr: u64,
    pub nth: usize,
    pub extra: u64,
    /// 0: B runs to completion while A is frozen; k > 0: B is frozen in turn
    /// just before its k-th synchronising instruction, A finishes, B finishes
    pub second: usize,
    /// cell-directed second preemption (non-zero: the address A's pending
    /// compare-and-swap operates on): B is frozen just *after* its
    /// `second`-th synchronising access to that address instead
    pub cell: u64,
    /// third and fourth preemption (only with `second > 0`, `cell == 0`):
    /// after B is frozen, A runs on to just before its `more[0]`-th further
    /// synchronising instruction and is frozen again (0: A runs to its end);
    /// B then runs on to its `more[1]`-th further one (0: to its end); then A
    /// finishes, then B
    pub more: [u16; 2],
}

/// One trial: A runs to `point`, is frozen, B runs its whole list, A resumes
pub fn trial(seed: u64, point: Point) -> (Verdict, bool) {
    let c = match start_child(seed) {
        Ok(c) => c,
        Err(e) => return (Verdict::Harness(e), false),
    };
    let mut bps = std::collections::HashMap::new();
    bps.insert(point.addr, set_bp(c.a, point.addr));
    match run_a_to(&c, &bps, Some(point.nth + 1)) {
        Ok((_, false)) => (),
        Ok((_, true)) => {
            return (
                Verdict::Harness("thread A finished before the preemption point (nondeterministic instruction stream?)".into()),
                false,
            );
        }
        Err(e) => return (Verdict::Harness(e), false),
    }
    let mut a_done = false;
    if point.extra > 0 {
        match step_a(&c, point.extra) {
            StepEnd::Reached => (),
            StepEnd::Done(_) => a_done = true,
            StepEnd::Failed(e) => return (Verdict::Harness(e), false),
        }
    }
    let mut blocked = false;
    if point.second > 0 && !a_done {
        let b_run = if point.cell != 0 {
            run_b_cell(&c, point.cell, Some(point.second)).map(|(s, _)| s)
        } else {
            run_b_to_kth(&c, point.second)
        };
        match b_run {
            Ok(BState::Frozen) if point.cell == 0 && point.more[0] > 0 => {
                // third preemption: A runs on a little and is frozen again
                let a_state = match run_to_kth(&c, c.a, c.b, SIG_A, point.more[0] as usize) {
                    Ok(s) => s,
                    Err(e) => return (Verdict::Harness(e), false),
                };
                match a_state {
                    BState::Frozen if point.more[1] > 0 => {
                        // fourth: B runs on a little, then A finishes, then B
                        let b_state = match run_to_kth(&c, c.b, c.a, SIG_B, point.more[1] as usize) {
                            Ok(s) => s,
                            Err(e) => return (Verdict::Harness(e), false),
                        };
                        finish_in_order(&c, true, false, matches!(b_state, BState::Done | BState::Gone));
                    }
                    // A frozen again (or blocked by B): B finishes first, then A
                    BState::Frozen | BState::Blocked => finish_in_order(&c, false, false, false),
                    BState::Done | BState::Gone => finish_in_order(&c, false, true, false),
                }
                let v = finish(c, true, &mut blocked);
                return (v, false);
            }
            Ok(BState::Frozen) => {
                a_then_b_to_markers(&c);
                let v = finish(c, true, &mut blocked);
                return (v, false);
            }
            Ok(BState::Blocked) => {
                // B waits for the frozen A: A finishes first
                cont(c.a, 0);
                loop {
                    match wait_tid(c.a, true) {
                        Some(Stop::Sig(s)) if s == SIG_A => break,
                        Some(Stop::Sig(s)) => cont(c.a, resume_sig(s)),
                        Some(Stop::Event(_)) => cont(c.a, 0),
                        _ => break,
                    }
                }
                let v = finish(c, true, &mut blocked);
                return (v, true);
            }
            Ok(BState::Done) | Ok(BState::Gone) => {
                // B is through: the single-preemption schedule
            }
            Err(e) => return (Verdict::Harness(e), false),
        }
    }
    let v = finish(c, a_done, &mut blocked);
    (v, blocked)
}

////////////////////////////////////////////////////////////////////////////////
// The simulated run

pub fn available() -> bool {
    !sync_sites().is_empty()
}

/// Points of the synchronisation skeleton: just before and just after every
/// synchronising instruction A executes
fn skeleton_points(seq: &[u64]) -> Vec<Point> {
    let mut out = vec![];
    for (k, a) in seq.iter().enumerate() {
        let nth = seq[..k].iter().filter(|b| *b == a).count();
        out.push(Point { addr: *a, nth, extra: 0, second: 0, cell: 0, more: [0, 0] });
        out.push(Point { addr: *a, nth, extra: 1, second: 0, cell: 0, more: [0, 0] });
    }
    out
}

/// Points of the conflict analysis: just before and just after every access
/// of A to a shared address that B also touches, one of the two writing
fn conflict_points(a: &[Access], b: &[Access]) -> Vec<Point> {
    use std::collections::HashSet;
    let b_written: HashSet<u64> = b.iter().filter(|x| x.write).map(|x| x.key).collect();
    let b_any: HashSet<u64> = b.iter().map(|x| x.key).collect();
    let mut out = vec![];
    for x in a {
        let conflict = if x.write { b_any.contains(&x.key) } else { b_written.contains(&x.key) };
        if conflict {
            out.push(Point { addr: x.rip, nth: x.nth, extra: 0, second: 0, cell: 0, more: [0, 0] });
            out.push(Point { addr: x.rip, nth: x.nth, extra: 1, second: 0, cell: 0, more: [0, 0] });
        }
    }
    out.sort();
    out.dedup();
    out
}

pub fn run(st: &Shared, tier: Tier, rep: &mut RunReport) {
    let (seed, max_trials, deep) = {
        let ch = &mut st.borrow_mut().ch;
        let hi = ch.choose("e6_seed_hi", 1 << 30) as u64;
        let lo = ch.choose("e6_seed_lo", 1 << 30) as u64;
        let deep = match tier {
            Tier::Quick => ch.odds("e6_deep", 1, 12),
            Tier::Thorough => ch.odds("e6_deep", 1, 3),
        };
        (
            (hi << 30) | lo,
            match tier {
                Tier::Quick => 32usize,
                Tier::Thorough => 96,
            },
            deep,
        )
    };
    rep.sample = format!("step-sim child seed {seed}");
    if !available() {
        rep.count("e6.unavailable_no_objdump", 1);
        return;
    }
    let (seq, cas_sites) = match discover_cas(seed) {
        Ok(Some(s)) => s,
        Ok(None) => {
            rep.count("e6.skipped_scenarios", 1);
            st.borrow_mut().log("e6_skipped", 0, 0);
            return;
        }
        Err(e) => {
            rep.count("e6.harness_error", 1);
            st.borrow_mut().log("e6_harness", 0, 0);
            rep.sample = format!("step-sim child seed {seed}: {e}");
            return;
        }
    };
    st.borrow_mut().log("e6_discovery", seq.len() as u64, 0);
    rep.count("sched.step_sim_scenarios", 1);
    {
        // which set-up and backend the child drew (the same draws, repeated here)
        let sc = gen_scenario(&mut Chooser::search(seed));
        rep.count(
            match sc.kind {
                0 => "e6.setup_tapes_built_up_front",
                1 => "e6.setup_each_thread_builds_its_tapes",
                2 => "e6.setup_shape_level_first_use",
                3 => "e6.setup_hoarding_churn",
                _ => "e6.setup_render_level",
            },
            1,
        );
        rep.count(if sc.backend >= 2 { "e6.backend_jit" } else { "e6.backend_vm" }, 1);
    }
    rep.count("e6.sync_instructions_executed_by_first_thread", seq.len() as u64);
    let all = skeleton_points(&seq);
    let mut points: Vec<Point> = vec![];
    let mut from_conflicts: std::collections::HashSet<Point> = Default::default();
    // deep pass: conflicting accesses to shared memory, plain loads and
    // stores included
    if deep {
        let acc = (|| -> Result<Option<(Vec<Access>, Vec<Access>)>, String> {
            let Some(a) = shared_accesses(seed, false, 60_000)? else { return Ok(None) };
            let Some(b) = shared_accesses(seed, true, 60_000)? else { return Ok(None) };
            Ok(Some((a, b)))
        })();
        match acc {
            Ok(Some((a, b))) => {
                let cp = conflict_points(&a, &b);
                rep.count("sched.step_sim_deep_scenarios", 1);
                rep.count("e6.shared_accesses_of_first_thread", a.len() as u64);
                rep.count("e6.shared_writes_of_first_thread", a.iter().filter(|x| x.write).count() as u64);
                rep.count("e6.conflict_points", cp.len() as u64);
                st.borrow_mut().log("e6_deep", a.len() as u64, cp.len() as u64);
                // conflicting accesses made by plain loads and stores first:
                // the synchronising ones are in the skeleton anyway
                let (plain, synced): (Vec<Point>, Vec<Point>) =
                    cp.iter().partition(|p| !seq.contains(&p.addr));
                rep.count("e6.conflict_points_at_plain_accesses", plain.len() as u64);
                from_conflicts.extend(plain.iter().copied());
                let ch = &mut st.borrow_mut().ch;
                let room = max_trials / 2;
                for set in [&plain, &synced] {
                    let left = room.saturating_sub(points.len());
                    if set.len() <= left {
                        points.extend(set.iter());
                    } else {
                        for _ in 0..left {
                            points.push(set[ch.choose("e6_conflict_point", set.len() as u32) as usize]);
                        }
                    }
                }
            }
            Ok(None) => rep.count("e6.deep_pass_too_long", 1),
            Err(e) => {
                rep.count("e6.harness_error", 1);
                rep.sample = format!("step-sim child seed {seed} deep pass: {e}");
            }
        }
    }
    {
        let ch = &mut st.borrow_mut().ch;
        let left = max_trials.saturating_sub(points.len());
        let n_main = left * 3 / 4;
        if all.len() <= n_main {
            points.extend(&all);
        } else {
            for _ in 0..n_main {
                points.push(all[ch.choose("e6_sync_point", all.len() as u32) as usize]);
            }
        }
        // a few instructions beyond a synchronising one (windows that end in
        // a plain load or store)
        if !all.is_empty() {
            for _ in 0..(max_trials.saturating_sub(points.len())).min(max_trials / 4) {
                let p = all[ch.choose("e6_offset_hit", all.len() as u32) as usize];
                let extra = 2 + ch.choose("e6_offset", 40) as u64;
                points.push(Point { extra, ..p });
            }
        }
    }
    points.sort();
    points.dedup();
    // a share of the points gets a second preemption: B is frozen in turn in
    // the middle of its list (schedules A-part, B-part, A-rest, B-rest)
    if !seq.is_empty() {
        let ch = &mut st.borrow_mut().ch;
        let den = match tier {
            Tier::Quick => 6,
            Tier::Thorough => 3,
        };
        let mut two = vec![];
        for p in &points {
            if ch.odds("e6_two_preemptions", 1, den) {
                let second = 1 + ch.choose("e6_second_point", 2 * seq.len() as u32) as usize;
                // half of them go on to a third and (half of those) a fourth
                // preemption a few synchronising instructions further on
                let mut more = [0u16; 2];
                if ch.flag("e6_third_preemption") {
                    more[0] = 1 + ch.choose("e6_third_point", 12) as u16;
                    if ch.flag("e6_fourth_preemption") {
                        more[1] = 1 + ch.choose("e6_fourth_point", 12) as u16;
                    }
                }
                two.push(Point { second, more, ..*p });
            }
        }
        points.extend(two);
    }
    // cell-directed second preemptions: for a few of the compare-and-swap
    // instructions A executes, a scout execution watches what B does to the
    // word the CAS operates on; B is then frozen at the instants where that word
    // holds again the value A saw, after having changed (the schedules in which
    // a delayed CAS succeeds although the world moved on: ABA)
    let mut queue: std::collections::VecDeque<(Point, bool)> =
        points.into_iter().map(|p| (p, false)).collect();
    let (n_scout, n_cand) = match tier {
        Tier::Quick => (3usize, 3usize),
        Tier::Thorough => (8, 8),
    };
    {
        let cas_hits: Vec<usize> =
            (0..seq.len()).filter(|k| cas_sites.contains(&seq[*k])).collect();
        rep.count("e6.cas_instructions_executed_by_first_thread", cas_hits.len() as u64);
        let ch = &mut st.borrow_mut().ch;
        let mut picked: Vec<usize> = vec![];
        if cas_hits.len() <= n_scout {
            picked = cas_hits.clone();
        } else {
            for _ in 0..n_scout {
                picked.push(cas_hits[ch.choose("e6_cas_point", cas_hits.len() as u32) as usize]);
            }
            picked.sort();
            picked.dedup();
        }
        for k in picked {
            let nth = seq[..k].iter().filter(|b| **b == seq[k]).count();
            queue.push_back((Point { addr: seq[k], nth, extra: 0, second: 0, cell: 0, more: [0, 0] }, true));
        }
    }
    while let Some((mut p, is_scout)) = queue.pop_front() {
        let (v, blocked) = if is_scout {
            let r = find_cell(seed, p).and_then(|cell| match cell {
                None => Ok(None),
                Some(ea) => scout(seed, p, ea).map(|r| Some((ea, r))),
            });
            match r {
                Ok(None) => {
                    rep.count("e6.cas_without_decoded_memory_operand", 1);
                    continue;
                }
                Ok(Some((ea, (v, blocked, n_acc, restoring)))) => {
                    rep.count("e6.cas_points_scouted", 1);
                    rep.count("e6.second_thread_accesses_to_the_cas_word", n_acc as u64);
                    rep.count("e6.value_restoring_instants", restoring.len() as u64);
                    st.borrow_mut().log("e6_scout", n_acc as u64, restoring.len() as u64);
                    let ch = &mut st.borrow_mut().ch;
                    let mut js: Vec<usize> = vec![];
                    if restoring.len() <= n_cand {
                        js = restoring.clone();
                    } else {
                        for _ in 0..n_cand {
                            js.push(restoring[ch.choose("e6_restoring_instant", restoring.len() as u32) as usize]);
                        }
                        js.sort();
                        js.dedup();
                    }
                    for j in js {
                        queue.push_back((Point { second: j, cell: ea, ..p }, false));
                    }
                    p.cell = ea;
                    (v, blocked)
                }
                Err(e) => (Verdict::Harness(e), false),
            }
        } else {
            trial(seed, p)
        };
        if p.cell != 0 && p.second > 0 {
            rep.count("fault.second_thread_frozen_where_cas_word_restored", 1);
        }
        rep.count("fault.preempted_at_instruction", 1);
        if p.second > 0 {
            rep.count("fault.second_thread_preempted_too", 1);
        }
        if p.more[0] > 0 {
            rep.count("fault.first_thread_preempted_a_second_time", 1);
        }
        if p.more[1] > 0 {
            rep.count("fault.second_thread_preempted_a_second_time", 1);
        }
        if blocked {
            rep.count("e6.second_thread_blocked_by_frozen_first", 1);
        }
        st.borrow_mut().log(
            "e6_trial",
            ((p.nth as u64) << 40) | ((p.more[0] as u64) << 32) | ((p.more[1] as u64) << 24) | ((p.second as u64) << 8) | p.extra,
            matches!(v, Verdict::Equal) as u64,
        );
        rep.evaluations += 1;
        rep.steps += 1;
        rep.sigs.push(mix(mix(mix(mix(mix(mix(seed, p.addr), p.nth as u64), p.extra), p.second as u64), p.cell), ((p.more[0] as u64) << 16) | p.more[1] as u64));
        rep.checked_oracle += 1;
        let place = format!(
            "child seed {seed}: thread A frozen {} execution #{} of the instruction at {:#x}{} ({}), {}",
            if p.extra == 0 { "just before" } else { "just after" },
            p.nth + 1,
            p.addr,
            if p.extra > 1 { format!(" plus {} instructions", p.extra - 1) } else { String::new() },
            if from_conflicts.contains(&p) {
                "a plain load/store that conflicts with an access of thread B, found by the deep pass"
            } else {
                "a point of the synchronisation skeleton"
            },
            if p.second == 0 {
                "thread B run to completion in between".to_string()
            } else if p.cell != 0 {
                format!(
                    "thread B then frozen just after its synchronising access #{} to the word at {:#x} that A's compare-and-swap is about to operate on (the word holds again the value A saw), A run to completion, then B",
                    p.second, p.cell
                )
            } else {
                format!(
                    "thread B then frozen just before its synchronising instruction #{}, {}",
                    p.second,
                    match p.more {
                        [0, _] => "A run to completion, then B".to_string(),
                        [m, 0] => format!("A run on to just before its synchronising instruction #{m} from there and frozen again, B run to completion, then A"),
                        [m, n] => format!("A run on to just before its synchronising instruction #{m} from there and frozen again, B run on to just before its #{n} from there and frozen again, A run to completion, then B"),
                    }
                )
            },
        );
        match v {
            Verdict::Equal | Verdict::Skipped => (),
            Verdict::Differs(d) => {
                rep.violate(
                    "C09",
                    "stepped_threads_result_differs_from_solo",
                    format!("{place}: {d}"),
                );
                break;
            }
            Verdict::Crashed(sig) => {
                rep.violate(
                    "C09",
                    "stepped_threads_crash",
                    format!("{place}: child killed by signal {sig}"),
                );
                break;
            }
            Verdict::Harness(e) => {
                rep.count("e6.harness_error", 1);
                rep.sample = format!("step-sim child seed {seed} {p:?}: {e}");
            }
        }
    }
}

/// `fidget-sim e6probe <seed>`: what the passes see (debugging aid)
pub fn probe(seed: u64) {
    let t0 = std::time::Instant::now();
    let seq = discover(seed);
    println!(
        "seed {seed}: skeleton {:?} ({:.3}s)",
        seq.as_ref().map(|s| s.as_ref().map(|s| s.len())),
        t0.elapsed().as_secs_f64()
    );
    let t0 = std::time::Instant::now();
    let a = shared_accesses(seed, false, 400_000);
    let b = shared_accesses(seed, true, 400_000);
    if let (Ok(Some(a)), Ok(Some(b))) = (&a, &b) {
        let cp = conflict_points(a, b);
        println!(
            "deep: A {} shared accesses ({} writes), B {} ({} writes), {} conflict points ({:.3}s)",
            a.len(),
            a.iter().filter(|x| x.write).count(),
            b.len(),
            b.iter().filter(|x| x.write).count(),
            cp.len(),
            t0.elapsed().as_secs_f64()
        );
        if std::env::var_os("E6_DEBUG").is_some() {
            for x in a.iter().filter(|x| x.write) {
                println!("  A write rip {:#x} key {:#x}", x.rip - 0x555555554000, x.key);
            }
        }
        for p in cp.iter().take(4) {
            let t0 = std::time::Instant::now();
            let r = trial(seed, *p);
            println!("  trial {p:x?}: {r:?} {:.3}s", t0.elapsed().as_secs_f64());
        }
    } else {
        println!("deep: {:?} {:?}", a.map(|x| x.map(|v| v.len())), b.map(|x| x.map(|v| v.len())));
    }
    if let Ok(Some(seq)) = seq {
        for p in skeleton_points(&seq).iter().take(4) {
            let t0 = std::time::Instant::now();
            let r = trial(seed, *p);
            println!("  trial {p:x?}: {r:?} {:.3}s", t0.elapsed().as_secs_f64());
        }
    }
}
