//! fidget-sim: deterministic simulation with fault injection for mkeeter/fidget
mod chooser;
mod common;
mod driver;
mod e1;
mod e2;
mod e3;
mod e5;
mod e6;
mod gen_;
mod rt;
mod specs;
mod x86mem;

use common::Tier;

fn usage() -> i32 {
    eprintln!(
        "usage: fidget-sim check <property> [quick|thorough]\n       fidget-sim replay <file>\n       fidget-sim selftest <determinism|executor> [runs]\n       fidget-sim list"
    );
    2
}

fn main() {
    rt::init_panic_hook();
    let args: Vec<String> = std::env::args().collect();
    let specs = specs::all();
    let code = match args.get(1).map(|s| s.as_str()) {
        Some("check") => {
            let Some(prop) = args.get(2) else {
                std::process::exit(usage());
            };
            let tier = match args.get(3).map(|s| s.as_str()).or(std::env::var(
                "VERIF_TIER",
            )
            .ok()
            .as_deref())
            {
                Some("thorough") => Tier::Thorough,
                _ => Tier::Quick,
            };
            match specs.iter().find(|s| s.prop == prop) {
                Some(spec) => driver::check(spec, tier),
                None => {
                    eprintln!("no check for {prop}");
                    2
                }
            }
        }
        Some("one") => {
            let tier = if args.get(3).map(|s| s.as_str()) == Some("thorough") {
                Tier::Thorough
            } else {
                Tier::Quick
            };
            let idx: u64 = args.get(4).and_then(|s| s.parse().ok()).unwrap_or(0);
            match specs.iter().find(|s| Some(s.prop) == args.get(2).map(|s| s.as_str())) {
                Some(spec) => driver::one(spec, tier, idx),
                None => 2,
            }
        }
        Some("minimise") => {
            let tier = if args.get(3).map(|s| s.as_str()) == Some("thorough") {
                Tier::Thorough
            } else {
                Tier::Quick
            };
            match (
                specs.iter().find(|s| Some(s.prop) == args.get(2).map(|s| s.as_str())),
                args.get(4),
            ) {
                (Some(spec), Some(dir)) => driver::minimise_child(spec, tier, dir),
                _ => 2,
            }
        }
        Some("replay") => match args.get(2) {
            Some(p) => driver::replay(&specs, p),
            None => usage(),
        },
        Some("e6child") => e6::child_main(&args[2..]),
        Some("e6probe") => {
            let seed: u64 = args.get(2).and_then(|s| s.parse().ok()).unwrap_or(1);
            e6::probe(seed);
            if x86mem::selftest() { 0 } else { 2 }
        }
        Some("selftest") => specs::selftest(&specs, &args[2..]),
        Some("list") => {
            for s in &specs {
                println!("{} {}", s.prop, s.engine);
            }
            0
        }
        _ => usage(),
    };
    std::process::exit(code);
}
