//! Shared types for engines
use crate::rt::{RunState, Shared};
use std::collections::BTreeMap;

#[derive(Clone, Debug)]
pub struct Violation {
    pub property: &'static str,
    /// Stable identifier of the oracle clause that fired
    pub clause: String,
    /// Human-readable detail (not part of the identity)
    pub detail: String,
}

#[derive(Copy, Clone, Debug, PartialEq, Eq)]
pub enum Tier {
    Quick,
    Thorough,
}

impl Tier {
    pub fn name(&self) -> &'static str {
        match self {
            Tier::Quick => "quick",
            Tier::Thorough => "thorough",
        }
    }
}

#[derive(Copy, Clone, Debug, PartialEq, Eq)]
pub enum Backend {
    Vm,
    Vm3,
    Jit,
}

/// What one simulated run reports back (must be `Send`)
#[derive(Default, Debug)]
pub struct RunReport {
    pub violations: Vec<Violation>,
    pub counters: BTreeMap<&'static str, u64>,
    /// Signatures of the non-trivial cases this run explored
    pub sigs: Vec<u64>,
    /// Logical steps (items executed, polls, operations): the "simulated time"
    pub steps: u64,
    pub evaluations: u64,
    pub trace: Vec<u32>,
    pub trace_sites: Vec<&'static str>,
    pub spans: Vec<(usize, usize, usize)>,
    pub log_hash: u64,
    pub sample: String,
    pub events: Vec<(&'static str, u64, u64)>,
    pub skipped_oracle: u64,
    pub checked_oracle: u64,
}

impl RunReport {
    pub fn finish(mut self, st: &Shared) -> Self {
        let s: &RunState = &st.borrow();
        for (k, v) in &s.counters {
            *self.counters.entry(k).or_insert(0) += v;
        }
        self.trace = s.ch.values();
        self.trace_sites = s.ch.trace.iter().map(|t| t.0).collect();
        self.spans = s.ch.spans.clone();
        self.log_hash = s.log_hash;
        self.events = s.events.clone();
        self
    }
    pub fn count(&mut self, k: &'static str, n: u64) {
        if n > 0 {
            *self.counters.entry(k).or_insert(0) += n;
        }
    }
    pub fn violate(
        &mut self,
        property: &'static str,
        clause: impl Into<String>,
        detail: impl Into<String>,
    ) {
        // keep at most a handful per run; the first is what gets minimised
        if self.violations.len() < 8 {
            self.violations.push(Violation {
                property,
                clause: clause.into(),
                detail: detail.into(),
            });
        }
    }
}

pub fn f32_same(a: f32, b: f32) -> bool {
    a.to_bits() == b.to_bits() || (a.is_nan() && b.is_nan())
}
