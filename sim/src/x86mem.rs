//! A small x86-64 decoder for E6's deep discovery: does the instruction at
//! hand access memory through a ModRM operand (or is it a string operation),
//! at which effective address, and does it read or write?
//!
//! It is used only to *choose preemption points* (accesses to memory that both
//! traced threads touch): a mis-decoded instruction costs a candidate point or
//! adds a useless one, it can never produce a verdict.  Thread-local (fs/gs)
//! and stack (rsp-based) operands are reported as "none".

#[derive(Debug, Clone, Copy, PartialEq, Eq)]
pub struct Mem {
    /// register numbers 0..=15 (rax rcx rdx rbx rsp rbp rsi rdi r8..r15)
    pub base: Option<u8>,
    pub index: Option<u8>,
    pub scale: u8,
    pub disp: i64,
    /// the operand is `[rip + disp]`: relative to the *next* instruction
    pub rip_rel: bool,
    pub read: bool,
    pub write: bool,
}

#[derive(Copy, Clone, PartialEq)]
enum Map {
    One,
    Two,
    Three,
}

pub fn decode(code: &[u8; 16]) -> Option<Mem> {
    let mut i = 0usize;
    let mut f3 = false;
    loop {
        match code[i] {
            0x64 | 0x65 => return None, // thread-local segment
            0xF3 => f3 = true,
            0xF2 | 0x66 | 0x67 | 0xF0 | 0x2E | 0x36 | 0x3E | 0x26 => (),
            _ => break,
        }
        i += 1;
        if i >= 6 {
            return None;
        }
    }
    let (mut rx, mut rb) = (0u8, 0u8);
    let map;
    let mut vex_pp = 0u8;
    let mut vex = false;
    match code[i] {
        0xC5 => {
            vex = true;
            vex_pp = code[i + 1] & 3;
            map = Map::Two;
            i += 2;
        }
        0xC4 => {
            vex = true;
            let b1 = code[i + 1];
            rx = ((!b1 >> 6) & 1) as u8;
            rb = ((!b1 >> 5) & 1) as u8;
            map = match b1 & 0x1f {
                1 => Map::Two,
                2 | 3 => Map::Three,
                _ => return None,
            };
            vex_pp = code[i + 2] & 3;
            i += 3;
        }
        0x62 => return None, // EVEX
        _ => {
            if (0x40..=0x4F).contains(&code[i]) {
                rx = (code[i] >> 1) & 1;
                rb = code[i] & 1;
                i += 1;
            }
            if code[i] == 0x0F {
                i += 1;
                if code[i] == 0x38 || code[i] == 0x3A {
                    map = Map::Three;
                    i += 1;
                } else {
                    map = Map::Two;
                }
            } else {
                map = Map::One;
            }
        }
    }
    let op = code[i];
    i += 1;
    let plain = |base: u8, read: bool, write: bool| {
        Some(Mem {
            base: Some(base),
            index: None,
            scale: 1,
            disp: 0,
            rip_rel: false,
            read,
            write,
        })
    };
    // (read, write) of the r/m operand, None: no memory operand of interest
    let rw: (bool, bool) = match map {
        Map::One => match op {
            // string operations: rsi = 6, rdi = 7
            0xA4 | 0xA5 | 0xAA | 0xAB => return plain(7, false, true),
            0xA6 | 0xA7 | 0xAC | 0xAD => return plain(6, true, false),
            0xAE | 0xAF => return plain(7, true, false),
            0x00..=0x3F if op & 7 <= 3 => {
                if op & 7 <= 1 {
                    if op & 0xF8 == 0x38 { (true, false) } else { (true, true) }
                } else {
                    (true, false)
                }
            }
            0x63 | 0x69 | 0x6B | 0x84 | 0x85 | 0x8A | 0x8B | 0x8E => (true, false),
            0x86 | 0x87 => (true, true),
            0x88 | 0x89 | 0x8C | 0x8F | 0xC6 | 0xC7 => (false, true),
            0x8D => return None, // lea
            0x80 | 0x81 | 0x83 => {
                if (code[i] >> 3) & 7 == 7 { (true, false) } else { (true, true) }
            }
            0xC0 | 0xC1 | 0xD0..=0xD3 | 0xFE => (true, true),
            0xD8..=0xDF => (true, false),
            0xF6 | 0xF7 => match (code[i] >> 3) & 7 {
                2 | 3 => (true, true),
                _ => (true, false),
            },
            0xFF => match (code[i] >> 3) & 7 {
                0 | 1 => (true, true),
                _ => (true, false),
            },
            _ => return None,
        },
        Map::Two => match op {
            0x05 | 0x0B | 0x31 | 0x77 | 0x80..=0x8F | 0xA0..=0xA2 | 0xA8..=0xAA
            | 0xC8..=0xCF | 0x30..=0x37 | 0x06..=0x09 => return None,
            0x1F | 0x18 | 0x0D => return None, // nop, prefetch
            0x11 | 0x13 | 0x17 | 0x29 | 0x2B | 0x7F | 0xD6 | 0xE7 | 0xC3
            | 0x90..=0x9F => (false, true),
            0x7E => {
                let is_f3 = if vex { vex_pp == 2 } else { f3 };
                if is_f3 { (true, false) } else { (false, true) }
            }
            0xB0 | 0xB1 | 0xC0 | 0xC1 | 0xAB | 0xB3 | 0xBB | 0xC7 => (true, true),
            _ => (true, false),
        },
        Map::Three => (true, false),
    };
    let m = code[i];
    i += 1;
    let (md, rm) = (m >> 6, m & 7);
    if md == 3 {
        return None;
    }
    let mut out = Mem {
        base: None,
        index: None,
        scale: 1,
        disp: 0,
        rip_rel: false,
        read: rw.0,
        write: rw.1,
    };
    let mut disp32 = md == 2;
    if rm == 4 {
        let sib = code[i];
        i += 1;
        out.scale = 1 << (sib >> 6);
        let idx = ((sib >> 3) & 7) | (rx << 3);
        if idx != 4 {
            out.index = Some(idx);
        }
        if sib & 7 == 5 && md == 0 {
            disp32 = true;
        } else {
            out.base = Some((sib & 7) | (rb << 3));
        }
    } else if rm == 5 && md == 0 {
        out.rip_rel = true;
        disp32 = true;
    } else {
        out.base = Some(rm | (rb << 3));
    }
    if i + 4 > 16 {
        return None;
    }
    if md == 1 {
        out.disp = code[i] as i8 as i64;
    } else if disp32 {
        out.disp =
            i32::from_le_bytes([code[i], code[i + 1], code[i + 2], code[i + 3]]) as i64;
    }
    if out.base == Some(4) {
        return None; // stack
    }
    Some(out)
}

/// Effective address from the general-purpose registers (indexed 0..=15);
/// `next_rip` is needed for rip-relative operands
pub fn effective(m: &Mem, regs: &[u64; 16], next_rip: u64) -> u64 {
    let mut ea = m.disp as u64;
    if m.rip_rel {
        ea = ea.wrapping_add(next_rip);
    }
    if let Some(b) = m.base {
        ea = ea.wrapping_add(regs[b as usize]);
    }
    if let Some(x) = m.index {
        ea = ea.wrapping_add(regs[x as usize].wrapping_mul(m.scale as u64));
    }
    ea
}

pub fn selftest() -> bool {
    let enc = |b: &[u8]| -> [u8; 16] {
        let mut c = [0x90u8; 16];
        c[..b.len()].copy_from_slice(b);
        c
    };
    let mut ok = true;
    let mut chk = |name: &str, got: Option<Mem>, want: Option<(Option<u8>, i64, bool, bool, bool)>| {
        let g = got.map(|m| (m.base, m.disp, m.rip_rel, m.read, m.write));
        if g != want {
            eprintln!("x86mem selftest {name}: got {g:?}, want {want:?}");
            ok = false;
        }
    };
    // mov [rdi+8], rax
    chk("store", decode(&enc(&[0x48, 0x89, 0x47, 0x08])), Some((Some(7), 8, false, false, true)));
    // mov rax, [rsi]
    chk("load", decode(&enc(&[0x48, 0x8B, 0x06])), Some((Some(6), 0, false, true, false)));
    // mov [rsp+8], rax  -> stack
    chk("stack", decode(&enc(&[0x48, 0x89, 0x44, 0x24, 0x08])), None);
    // lock xadd [r14], rax
    chk("xadd", decode(&enc(&[0xF0, 0x49, 0x0F, 0xC1, 0x06])), Some((Some(14), 0, false, true, true)));
    // mov byte [rip+0x1234], 1
    chk("riprel", decode(&enc(&[0xC6, 0x05, 0x34, 0x12, 0, 0, 1])), Some((None, 0x1234, true, false, true)));
    // vmovups [rax+0x20], ymm0
    chk("vstore", decode(&enc(&[0xC5, 0xFC, 0x11, 0x40, 0x20])), Some((Some(0), 0x20, false, false, true)));
    // cmp dword [rbx+4], 0
    chk("cmp", decode(&enc(&[0x83, 0x7B, 0x04, 0x00])), Some((Some(3), 4, false, true, false)));
    // lea rax, [rdi+8]
    chk("lea", decode(&enc(&[0x48, 0x8D, 0x47, 0x08])), None);
    // mov rax, fs:[0]
    chk("tls", decode(&enc(&[0x64, 0x48, 0x8B, 0x04, 0x25, 0, 0, 0, 0])), None);
    // add rax, rbx (register form)
    chk("regreg", decode(&enc(&[0x48, 0x01, 0xD8])), None);
    ok
}
