use fidget_core::{Context, eval::{Function, MathFunction, TracingEvaluator, BulkEvaluator}, types::Interval, vm::GenericVmFunction};
fn main() {
    let mut ctx = Context::new();
    let x = ctx.x(); let y = ctx.y();
    let a = ctx.and(x, 0.0).unwrap();
    let m = ctx.modulo(y, x).unwrap();
    let n = ctx.neg(m).unwrap();
    let s = ctx.square(n).unwrap();
    let ns = ctx.neg(s).unwrap();
    let at = ctx.atan2(0.05, ns).unwrap();
    let t = ctx.tan(at).unwrap();
    let mx = ctx.max(x, t).unwrap();
    let root = ctx.min(a, mx).unwrap();
    let f = GenericVmFunction::<3>::new(&ctx, &[root, t, at, ns]).unwrap();
    println!("vars {:?}", f.vars().iter().collect::<Vec<_>>());
    let it = f.interval_tape(Default::default());
    let mut ie = GenericVmFunction::<3>::new_interval_eval();
    let (o, _) = ie.eval(&it, &[Interval::new(-0.6, -0.100000024), Interval::new(-2.45, -2.45)]).unwrap();
    println!("interval: {:?}", o);
    let pt = f.point_tape(Default::default());
    let mut pe = GenericVmFunction::<3>::new_point_eval();
    for k in 0..=2000 {
        let xv = -0.6 + (0.5 * k as f32) / 2000.0;
        let (o, _) = pe.eval(&pt, &[xv, -2.45]).unwrap();
        if o[0] >= 0.0 || o[1] > 0.0 { println!("x={xv} -> {:?}", o); }
    }
    for xv in [-0.35f32, -0.6, -0.100000024, -0.49, -0.2450000] {
        let (o, _) = pe.eval(&pt, &[xv, -2.45]).unwrap();
        println!("x={xv} -> {:?}", o);
    }
}
