use fidget_core::{Context, eval::{Function, MathFunction, TracingEvaluator}, var::Var};
use fidget_jit::JitFunction;
use fidget_core::vm::VmFunction;
fn go<F: Function + MathFunction>(name: &str) {
    let mut ctx = Context::new();
    let x = ctx.x();
    let y = ctx.y();
    let a = ctx.min(y, 0.0).unwrap();
    let b = ctx.min(x, 0.0).unwrap();
    let f = F::new(&ctx, &[a, b]).unwrap();
    println!("{name}: vars={:?} outputs={}", f.vars().iter().collect::<Vec<_>>(), f.output_count());
    let tape = f.point_tape(Default::default());
    let mut ev = F::new_point_eval();
    for p in [[1.0f32, 1.0], [-1.0, 1.0], [1.0, -1.0], [-1.0, -1.0], [0.0, 0.0]] {
        let (out, tr) = ev.eval(&tape, &p).unwrap();
        let out = out.to_vec();
        let tr = tr.cloned();
        print!("  p={p:?} out={out:?} trace={}", tr.is_some());
        if let Some(t) = tr {
            let r = std::panic::catch_unwind(std::panic::AssertUnwindSafe(|| f.simplify(&t, Default::default(), &mut Default::default()).map(|c| c.size())));
            print!(" simplify={r:?}");
        }
        println!();
    }
}
fn main() {
    go::<VmFunction>("vm");
    go::<JitFunction>("jit");
}
