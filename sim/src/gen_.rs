//! Workload generators: an expression IR that can be lowered into a fidget
//! `Context` and also evaluated by the harness's own f64 forward-mode dual
//! evaluator (for gradient oracles).
use crate::chooser::Chooser;
use fidget_core::{
    Context,
    context::Node,
    var::Var,
};

#[derive(Copy, Clone, Debug, PartialEq)]
pub enum Un {
    Neg,
    Abs,
    Recip,
    Sqrt,
    Square,
    Floor,
    Ceil,
    Round,
    Sin,
    Cos,
    Tan,
    Asin,
    Acos,
    Atan,
    Exp,
    Ln,
    Not,
}

#[derive(Copy, Clone, Debug, PartialEq)]
pub enum Bin {
    Add,
    Sub,
    Mul,
    Div,
    Atan2,
    Min,
    Max,
    Compare,
    Mod,
    And,
    Or,
}

#[derive(Copy, Clone, Debug, PartialEq)]
pub enum Ex {
    X,
    Y,
    Z,
    V(usize),
    C(f32),
    U(Un, usize),
    B(Bin, usize, usize),
}

/// Expression DAG in topological order (operands precede users)
#[derive(Clone, Debug, Default)]
pub struct Dag {
    pub n: Vec<Ex>,
}

impl Dag {
    pub fn push(&mut self, e: Ex) -> usize {
        self.n.push(e);
        self.n.len() - 1
    }
    pub fn c(&mut self, v: f32) -> usize {
        self.push(Ex::C(v))
    }
    pub fn u(&mut self, op: Un, a: usize) -> usize {
        self.push(Ex::U(op, a))
    }
    pub fn b(&mut self, op: Bin, a: usize, b: usize) -> usize {
        self.push(Ex::B(op, a, b))
    }

    /// Lowers the DAG into a fidget context; returns one node per IR index
    pub fn lower(&self, ctx: &mut Context, vars: &[Var]) -> Vec<Node> {
        let mut out: Vec<Node> = Vec::with_capacity(self.n.len());
        for e in &self.n {
            let n = match *e {
                Ex::X => ctx.x(),
                Ex::Y => ctx.y(),
                Ex::Z => ctx.z(),
                Ex::V(i) => ctx.var(vars[i]),
                Ex::C(c) => ctx.constant(c),
                Ex::U(op, a) => {
                    let a = out[a];
                    match op {
                        Un::Neg => ctx.neg(a),
                        Un::Abs => ctx.abs(a),
                        Un::Recip => ctx.recip(a),
                        Un::Sqrt => ctx.sqrt(a),
                        Un::Square => ctx.square(a),
                        Un::Floor => ctx.floor(a),
                        Un::Ceil => ctx.ceil(a),
                        Un::Round => ctx.round(a),
                        Un::Sin => ctx.sin(a),
                        Un::Cos => ctx.cos(a),
                        Un::Tan => ctx.tan(a),
                        Un::Asin => ctx.asin(a),
                        Un::Acos => ctx.acos(a),
                        Un::Atan => ctx.atan(a),
                        Un::Exp => ctx.exp(a),
                        Un::Ln => ctx.ln(a),
                        Un::Not => ctx.not(a),
                    }
                    .unwrap()
                }
                Ex::B(op, a, b) => {
                    let (a, b) = (out[a], out[b]);
                    match op {
                        Bin::Add => ctx.add(a, b),
                        Bin::Sub => ctx.sub(a, b),
                        Bin::Mul => ctx.mul(a, b),
                        Bin::Div => ctx.div(a, b),
                        Bin::Atan2 => ctx.atan2(a, b),
                        Bin::Min => ctx.min(a, b),
                        Bin::Max => ctx.max(a, b),
                        Bin::Compare => ctx.compare(a, b),
                        Bin::Mod => ctx.modulo(a, b),
                        Bin::And => ctx.and(a, b),
                        Bin::Or => ctx.or(a, b),
                    }
                    .unwrap()
                }
            };
            out.push(n);
        }
        out
    }

    pub fn describe(&self, root: usize) -> String {
        fn go(d: &Dag, i: usize, depth: usize, out: &mut String) {
            if depth > 12 {
                out.push_str("..");
                return;
            }
            match d.n[i] {
                Ex::X => out.push('x'),
                Ex::Y => out.push('y'),
                Ex::Z => out.push('z'),
                Ex::V(k) => out.push_str(&format!("v{k}")),
                Ex::C(c) => out.push_str(&format!("{c}")),
                Ex::U(op, a) => {
                    out.push_str(&format!("{op:?}(").to_lowercase());
                    go(d, a, depth + 1, out);
                    out.push(')');
                }
                Ex::B(op, a, b) => {
                    out.push_str(&format!("{op:?}(").to_lowercase());
                    go(d, a, depth + 1, out);
                    out.push(',');
                    go(d, b, depth + 1, out);
                    out.push(')');
                }
            }
        }
        let mut s = String::new();
        go(self, root, 0, &mut s);
        if s.len() > 400 {
            s.truncate(400);
            s.push_str("...");
        }
        s
    }
}

////////////////////////////////////////////////////////////////////////////////
// f64 forward-mode evaluation with `K` derivative lanes

#[derive(Copy, Clone, Debug)]
pub struct Dual<const K: usize> {
    pub v: f64,
    pub d: [f64; K],
}

impl<const K: usize> Dual<K> {
    pub fn c(v: f64) -> Self {
        Dual { v, d: [0.0; K] }
    }
    fn map(self, v: f64, dv: f64) -> Self {
        let mut d = self.d;
        for x in &mut d {
            *x *= dv;
        }
        Dual { v, d }
    }
}

/// Result of a dual evaluation: value+derivatives of every node, plus the
/// smallest margin by which a non-differentiable decision (min/max tie, abs at
/// zero, and/or/compare/floor etc.) was taken or by which a pole of a
/// derivative (recip/div/ln at 0, asin/acos at +-1, tan, sqrt at 0) was missed.  `supported == false` means the
/// DAG uses an op whose derivative the harness does not model.
pub struct DualEval<const K: usize> {
    pub vals: Vec<Dual<K>>,
    pub tie_margin: f64,
    pub supported: bool,
}

pub fn eval_dual<const K: usize>(
    d: &Dag,
    x: Dual<K>,
    y: Dual<K>,
    z: Dual<K>,
    vars: &[Dual<K>],
) -> DualEval<K> {
    let mut vals: Vec<Dual<K>> = Vec::with_capacity(d.n.len());
    let mut tie = f64::INFINITY;
    let mut supported = true;
    for e in &d.n {
        let r = match *e {
            Ex::X => x,
            Ex::Y => y,
            Ex::Z => z,
            Ex::V(i) => vars[i],
            Ex::C(c) => Dual::c(c as f64),
            Ex::U(op, a) => {
                let a = vals[a];
                match op {
                    Un::Neg => a.map(-a.v, -1.0),
                    Un::Abs => {
                        tie = tie.min(a.v.abs());
                        a.map(a.v.abs(), if a.v < 0.0 { -1.0 } else { 1.0 })
                    }
                    Un::Recip => {
                        // derivative pole
                        tie = tie.min(a.v.abs());
                        a.map(1.0 / a.v, -1.0 / (a.v * a.v))
                    }
                    Un::Sqrt => {
                        tie = tie.min(a.v.abs());
                        a.map(a.v.sqrt(), 0.5 / a.v.sqrt())
                    }
                    Un::Square => a.map(a.v * a.v, 2.0 * a.v),
                    Un::Sin => a.map(a.v.sin(), a.v.cos()),
                    Un::Cos => a.map(a.v.cos(), -a.v.sin()),
                    Un::Tan => {
                        tie = tie.min(a.v.cos().abs());
                        a.map(a.v.tan(), 1.0 / a.v.cos().powi(2))
                    }
                    Un::Asin => {
                        tie = tie.min(1.0 - a.v.abs());
                        a.map(a.v.asin(), 1.0 / (1.0 - a.v * a.v).sqrt())
                    }
                    Un::Acos => {
                        tie = tie.min(1.0 - a.v.abs());
                        a.map(a.v.acos(), -1.0 / (1.0 - a.v * a.v).sqrt())
                    }
                    Un::Atan => a.map(a.v.atan(), 1.0 / (1.0 + a.v * a.v)),
                    Un::Exp => a.map(a.v.exp(), a.v.exp()),
                    Un::Ln => {
                        tie = tie.min(a.v.abs());
                        a.map(a.v.ln(), 1.0 / a.v)
                    }
                    Un::Floor | Un::Ceil | Un::Round | Un::Not => {
                        supported = false;
                        Dual::c(0.0)
                    }
                }
            }
            Ex::B(op, a, b) => {
                let (a, b) = (vals[a], vals[b]);
                let mut out = Dual::c(0.0);
                match op {
                    Bin::Add => {
                        out.v = a.v + b.v;
                        for i in 0..K {
                            out.d[i] = a.d[i] + b.d[i];
                        }
                    }
                    Bin::Sub => {
                        out.v = a.v - b.v;
                        for i in 0..K {
                            out.d[i] = a.d[i] - b.d[i];
                        }
                    }
                    Bin::Mul => {
                        out.v = a.v * b.v;
                        for i in 0..K {
                            out.d[i] = a.d[i] * b.v + a.v * b.d[i];
                        }
                    }
                    Bin::Div => {
                        tie = tie.min(b.v.abs());
                        out.v = a.v / b.v;
                        for i in 0..K {
                            out.d[i] =
                                (a.d[i] * b.v - a.v * b.d[i]) / (b.v * b.v);
                        }
                    }
                    Bin::Min => {
                        tie = tie.min((a.v - b.v).abs());
                        out = if a.v < b.v { a } else { b };
                    }
                    Bin::Max => {
                        tie = tie.min((a.v - b.v).abs());
                        out = if a.v > b.v { a } else { b };
                    }
                    Bin::And => {
                        tie = tie.min(a.v.abs());
                        out = if a.v == 0.0 { a } else { b };
                    }
                    Bin::Or => {
                        tie = tie.min(a.v.abs());
                        out = if a.v != 0.0 { a } else { b };
                    }
                    Bin::Atan2 | Bin::Compare | Bin::Mod => {
                        supported = false;
                    }
                }
                out
            }
        };
        vals.push(r);
    }
    DualEval {
        vals,
        tie_margin: tie,
        supported,
    }
}

////////////////////////////////////////////////////////////////////////////////
// CSG shape generator (C06 / C07 / C09 / C14 workloads)

pub struct ShapeGen {
    pub dag: Dag,
    pub root: usize,
    pub nvars: usize,
    pub var_values: Vec<f32>,
}

/// Helpers building sub-expressions with explicit sharing of x/y/z nodes
struct B<'a> {
    d: &'a mut Dag,
    x: usize,
    y: usize,
    z: usize,
}

impl B<'_> {
    fn axis(&mut self, ax: usize) -> usize {
        [self.x, self.y, self.z][ax]
    }
    fn shifted(&mut self, ax: usize, c: f32) -> usize {
        let a = self.axis(ax);
        if c == 0.0 {
            a
        } else {
            let k = self.d.c(c);
            self.d.b(Bin::Sub, a, k)
        }
    }
    fn sphere(&mut self, c: [f32; 3], r: f32, dims: usize) -> usize {
        let mut acc = None;
        for ax in 0..dims {
            let s = self.shifted(ax, c[ax]);
            let q = self.d.u(Un::Square, s);
            acc = Some(match acc {
                None => q,
                Some(p) => self.d.b(Bin::Add, p, q),
            });
        }
        let s = self.d.u(Un::Sqrt, acc.unwrap());
        let k = self.d.c(r);
        self.d.b(Bin::Sub, s, k)
    }
    fn boxy(&mut self, c: [f32; 3], h: [f32; 3], dims: usize) -> usize {
        let mut acc = None;
        for ax in 0..dims {
            let s = self.shifted(ax, c[ax]);
            let a = self.d.u(Un::Abs, s);
            let k = self.d.c(h[ax]);
            let q = self.d.b(Bin::Sub, a, k);
            acc = Some(match acc {
                None => q,
                Some(p) => self.d.b(Bin::Max, p, q),
            });
        }
        acc.unwrap()
    }
    fn plane(&mut self, n: [f32; 3], off: f32, dims: usize) -> usize {
        let mut acc = None;
        for ax in 0..dims {
            let a = self.axis(ax);
            let k = self.d.c(n[ax]);
            let q = self.d.b(Bin::Mul, a, k);
            acc = Some(match acc {
                None => q,
                Some(p) => self.d.b(Bin::Add, p, q),
            });
        }
        let k = self.d.c(off);
        self.d.b(Bin::Sub, acc.unwrap(), k)
    }
    fn torus(&mut self, c: [f32; 3], big: f32, small: f32) -> usize {
        let sx = self.shifted(0, c[0]);
        let sy = self.shifted(1, c[1]);
        let sz = self.shifted(2, c[2]);
        let qx = self.d.u(Un::Square, sx);
        let qy = self.d.u(Un::Square, sy);
        let s = self.d.b(Bin::Add, qx, qy);
        let r = self.d.u(Un::Sqrt, s);
        let k = self.d.c(big);
        let t = self.d.b(Bin::Sub, r, k);
        let t2 = self.d.u(Un::Square, t);
        let z2 = self.d.u(Un::Square, sz);
        let s = self.d.b(Bin::Add, t2, z2);
        let r = self.d.u(Un::Sqrt, s);
        let k = self.d.c(small);
        self.d.b(Bin::Sub, r, k)
    }
}

/// Draws a CSG shape of `dims`-dimensional primitives.
///
/// With `dims == 2` the primitives ignore Z (the renderer supplies a constant
/// Z); with `dims == 3` they are solids.
pub fn gen_csg(ch: &mut Chooser, dims: usize, max_vars: usize) -> ShapeGen {
    let mut dag = Dag::default();
    let x = dag.push(Ex::X);
    let y = dag.push(Ex::Y);
    let z = dag.push(Ex::Z);
    let nvars = ch.choose("csg_nvars", max_vars as u32 + 1) as usize;
    let mut var_values = vec![];
    let mut var_nodes = vec![];
    for i in 0..nvars {
        var_nodes.push(dag.push(Ex::V(i)));
        var_values.push(ch.float_sym("csg_varval", 0.5, 10));
    }
    let nprims_at = ch.mark();
    let nprims = 1 + ch.choose("csg_nprims", 6) as usize;
    let mut b = B {
        d: &mut dag,
        x,
        y,
        z,
    };
    let mut acc: Option<usize> = None;
    for _ in 0..nprims {
        ch.span_begin();
        let c = [
            ch.float_sym("csg_c", 0.8, 16),
            ch.float_sym("csg_c", 0.8, 16),
            ch.float_sym("csg_c", 0.8, 16),
        ];
        let kind = ch.choose("csg_kind", if dims == 3 { 4 } else { 3 });
        let mut p = match kind {
            0 => {
                let r = ch.float("csg_r", 0.15, 0.9, 15);
                b.sphere(c, r, dims)
            }
            1 => {
                let h = [
                    ch.float("csg_h", 0.1, 0.7, 12),
                    ch.float("csg_h", 0.1, 0.7, 12),
                    ch.float("csg_h", 0.1, 0.7, 12),
                ];
                b.boxy(c, h, dims)
            }
            2 => {
                let n = [
                    ch.float_sym("csg_n", 1.0, 4),
                    ch.float_sym("csg_n", 1.0, 4),
                    ch.float_sym("csg_n", 1.0, 4),
                ];
                let n = if n[..dims].iter().all(|v| *v == 0.0) {
                    [1.0, 0.0, 0.0]
                } else {
                    n
                };
                let off = ch.float_sym("csg_off", 0.6, 12);
                b.plane(n, off, dims)
            }
            _ => {
                let big = ch.float("csg_R", 0.3, 0.7, 8);
                let small = ch.float("csg_r2", 0.05, 0.25, 8);
                b.torus(c, big, small)
            }
        };
        // optionally offset the primitive by a bound variable
        if !var_nodes.is_empty() && ch.odds("csg_usevar", 1, 3) {
            let v = *ch.pick("csg_whichvar", &var_nodes);
            p = b.d.b(Bin::Sub, p, v);
        }
        // occasional decorations that keep the field Lipschitz-ish
        match ch.choose("csg_deco", 12) {
            1 => {
                // shell
                let a = b.d.u(Un::Abs, p);
                let k = b.d.c(ch.float("csg_shell", 0.02, 0.12, 5));
                p = b.d.b(Bin::Sub, a, k);
            }
            2 => {
                // scale the field
                let k = b.d.c(ch.float("csg_scale", 0.5, 3.0, 5));
                p = b.d.b(Bin::Mul, p, k);
            }
            _ => (),
        }
        acc = Some(match acc {
            None => p,
            Some(q) => match ch.choose("csg_op", 4) {
                0 => b.d.b(Bin::Min, q, p),
                1 => b.d.b(Bin::Max, q, p),
                2 => {
                    let np = b.d.u(Un::Neg, p);
                    b.d.b(Bin::Max, q, np)
                }
                _ => b.d.b(Bin::Min, p, q),
            },
        });
        ch.span_end(nprims_at);
    }
    let mut root = acc.unwrap();
    // make sure every declared variable is used by the shape (a shape that
    // does not mention a variable would make "missing variable" moot)
    for (i, v) in var_nodes.iter().enumerate() {
        let used = dag.n.iter().any(|e| match e {
            Ex::B(_, a, b) => a == v || b == v,
            Ex::U(_, a) => a == v,
            _ => false,
        });
        if !used {
            let k = dag.c(0.25 * (i as f32 + 1.0));
            let m = dag.b(Bin::Mul, *v, k);
            root = dag.b(Bin::Add, root, m);
        }
    }
    ShapeGen {
        dag,
        root,
        nvars,
        var_values,
    }
}

////////////////////////////////////////////////////////////////////////////////
// Random DAG generator (C04 / C10 workloads): all opcodes, many choices,
// several outputs

pub struct FuncGen {
    pub dag: Dag,
    pub outputs: Vec<usize>,
    pub nvars: usize,
}

const SPECIAL: [f32; 8] = [0.0, 1.0, -1.0, 0.5, 2.0, -0.25, 3.0, 0.125];

pub fn gen_func(ch: &mut Chooser, max_ops: usize) -> FuncGen {
    gen_func_with(ch, max_ops, 5)
}

pub fn gen_func_with(ch: &mut Chooser, max_ops: usize, max_vars: u32) -> FuncGen {
    let mut dag = Dag::default();
    let mut pool: Vec<usize> = vec![];
    // inputs: a drawn subset of x,y,z plus 0..=5 vars
    let axes = 1 + ch.choose("fn_axes", 7); // non-empty bitmask
    if axes & 1 != 0 {
        pool.push(dag.push(Ex::X));
    }
    if axes & 2 != 0 {
        pool.push(dag.push(Ex::Y));
    }
    if axes & 4 != 0 {
        pool.push(dag.push(Ex::Z));
    }
    let nvars = ch.choose("fn_nvars", max_vars + 1) as usize;
    for i in 0..nvars {
        pool.push(dag.push(Ex::V(i)));
    }
    let nops_at = ch.mark();
    let nops = 2 + ch.choose("fn_nops", max_ops as u32 - 1) as usize;
    // choice density: how often an op is min/max/and/or
    let density = ch.choose("fn_density", 4); // 0: low .. 3: very high
    // flavours: *call-heavy* functions are dominated by the operations with
    // the longest machine code (libm calls, atan2, mod, compare; seeded change
    // C10-k sizes JIT mappings by a per-clause bound); *immediate reuse* makes
    // later immediates repeat the most recent one bit for bit, with `not` and
    // other unary operations in between (seeded change C04-t caches which
    // immediate sits in a scratch register)
    let heavy = ch.odds("fn_call_heavy", 1, 8);
    let reuse_imm = ch.odds("fn_reuse_imm", 1, 4);
    let mut last_imm: Option<f32> = None;
    for _ in 0..nops {
        ch.span_begin();
        let pick = |ch: &mut Chooser, pool: &Vec<usize>| -> usize {
            // bias towards recent nodes so depth grows
            let n = pool.len() as u32;
            if ch.flag("fn_recent") {
                let k = ch.choose("fn_arg", n.min(4));
                pool[(n - 1 - k) as usize]
            } else {
                pool[ch.choose("fn_arg", n) as usize]
            }
        };
        let is_choice = match density {
            0 => ch.odds("fn_ischoice", 1, 6),
            1 => ch.odds("fn_ischoice", 1, 3),
            2 => ch.odds("fn_ischoice", 1, 2),
            _ => ch.odds("fn_ischoice", 3, 4),
        };
        let a = pick(ch, &pool);
        let node = if is_choice {
            let op = *ch.pick(
                "fn_cop",
                &[Bin::Min, Bin::Max, Bin::Min, Bin::Max, Bin::And, Bin::Or],
            );
            let b = if ch.odds("fn_imm", 1, if reuse_imm { 2 } else { 4 }) {
                let v = if reuse_imm && last_imm.is_some() && ch.odds("fn_imm_again", 2, 3) {
                    last_imm.unwrap()
                } else if ch.flag("fn_imm_special") {
                    *ch.pick("fn_imm_s", &SPECIAL)
                } else {
                    ch.float_sym("fn_imm_v", 2.0, 40)
                };
                last_imm = Some(v);
                dag.c(v)
            } else if ch.odds("fn_same_operand", 1, 10) {
                // and(a, a), min(a, a), ...: the same-operand arms of the
                // register allocator (seeded changes C04-u, C04-v)
                a
            } else {
                pick(ch, &pool)
            };
            if ch.flag("fn_swap") {
                dag.b(op, b, a)
            } else {
                dag.b(op, a, b)
            }
        } else if heavy && ch.odds("fn_heavy_op", 3, 4) {
            if ch.odds("fn_heavy_unary", 3, 4) {
                let op = *ch.pick(
                    "fn_heavy_uop",
                    &[Un::Sin, Un::Cos, Un::Tan, Un::Asin, Un::Acos, Un::Atan, Un::Exp, Un::Ln],
                );
                dag.u(op, a)
            } else {
                let op = *ch.pick("fn_heavy_bop", &[Bin::Atan2, Bin::Mod, Bin::Compare]);
                let b = pick(ch, &pool);
                dag.b(op, a, b)
            }
        } else if reuse_imm && ch.odds("fn_not", 1, 4) {
            dag.u(Un::Not, a)
        } else if ch.odds("fn_unary", 2, 5) {
            let op = *ch.pick(
                "fn_uop",
                &[
                    Un::Neg,
                    Un::Abs,
                    Un::Square,
                    Un::Sqrt,
                    Un::Sin,
                    Un::Cos,
                    Un::Neg,
                    Un::Abs,
                    Un::Recip,
                    Un::Exp,
                    Un::Ln,
                    Un::Floor,
                    Un::Ceil,
                    Un::Round,
                    Un::Tan,
                    Un::Asin,
                    Un::Acos,
                    Un::Atan,
                    Un::Not,
                ],
            );
            dag.u(op, a)
        } else {
            let op = *ch.pick(
                "fn_bop",
                &[
                    Bin::Add,
                    Bin::Sub,
                    Bin::Mul,
                    Bin::Add,
                    Bin::Sub,
                    Bin::Mul,
                    Bin::Div,
                    Bin::Atan2,
                    Bin::Compare,
                    Bin::Mod,
                ],
            );
            let b = if ch.odds("fn_imm", 1, if reuse_imm { 2 } else { 4 }) {
                let v = if reuse_imm && last_imm.is_some() && ch.odds("fn_imm_again", 2, 3) {
                    last_imm.unwrap()
                } else {
                    ch.float_sym("fn_imm_v", 2.0, 40)
                };
                last_imm = Some(v);
                dag.c(v)
            } else if ch.odds("fn_same_operand", 1, 10) {
                a
            } else {
                pick(ch, &pool)
            };
            if ch.flag("fn_swap") {
                dag.b(op, b, a)
            } else {
                dag.b(op, a, b)
            }
        };
        pool.push(node);
        ch.span_end(nops_at);
    }
    // outputs: 1..=4, last node always included; sometimes an input or a
    // constant is an output too
    let nout = match ch.choose("fn_nout", 8) {
        0..=3 => 1,
        4 | 5 => 2,
        6 => 3,
        _ => 4,
    };
    let mut outputs = vec![*pool.last().unwrap()];
    while outputs.len() < nout {
        let o = if ch.odds("fn_out_const", 1, 10) {
            dag.c(ch.float_sym("fn_out_c", 2.0, 8))
        } else {
            pool[ch.choose("fn_out", pool.len() as u32) as usize]
        };
        if !outputs.contains(&o) {
            outputs.push(o);
        } else if ch.odds("fn_out_giveup", 1, 2) {
            break;
        }
    }
    FuncGen {
        dag,
        outputs,
        nvars,
    }
}

////////////////////////////////////////////////////////////////////////////////
// f32 evaluation of every node (used to recognise points at which some
// intermediate value is NaN, which the interval-enclosure guarantee exempts)

pub fn eval_f32(d: &Dag, x: f32, y: f32, z: f32, vars: &[f32]) -> Vec<f32> {
    let mut vals: Vec<f32> = Vec::with_capacity(d.n.len());
    for e in &d.n {
        let r = match *e {
            Ex::X => x,
            Ex::Y => y,
            Ex::Z => z,
            Ex::V(i) => vars[i],
            Ex::C(c) => c,
            Ex::U(op, a) => {
                let a = vals[a];
                match op {
                    Un::Neg => -a,
                    Un::Abs => a.abs(),
                    Un::Recip => 1.0 / a,
                    Un::Sqrt => a.sqrt(),
                    Un::Square => a * a,
                    Un::Floor => a.floor(),
                    Un::Ceil => a.ceil(),
                    Un::Round => a.round(),
                    Un::Sin => a.sin(),
                    Un::Cos => a.cos(),
                    Un::Tan => a.tan(),
                    Un::Asin => a.asin(),
                    Un::Acos => a.acos(),
                    Un::Atan => a.atan(),
                    Un::Exp => a.exp(),
                    Un::Ln => a.ln(),
                    Un::Not => (a == 0.0) as u8 as f32,
                }
            }
            Ex::B(op, a, b) => {
                let (a, b) = (vals[a], vals[b]);
                match op {
                    Bin::Add => a + b,
                    Bin::Sub => a - b,
                    Bin::Mul => a * b,
                    Bin::Div => a / b,
                    Bin::Atan2 => a.atan2(b),
                    Bin::Min => {
                        if a < b {
                            a
                        } else if b < a {
                            b
                        } else if a.is_nan() || b.is_nan() {
                            f32::NAN
                        } else {
                            b
                        }
                    }
                    Bin::Max => {
                        if a > b {
                            a
                        } else if b > a {
                            b
                        } else if a.is_nan() || b.is_nan() {
                            f32::NAN
                        } else {
                            b
                        }
                    }
                    Bin::Compare => a
                        .partial_cmp(&b)
                        .map(|c| c as i8 as f32)
                        .unwrap_or(f32::NAN),
                    Bin::Mod => a.rem_euclid(b),
                    Bin::And => {
                        if a == 0.0 {
                            a
                        } else {
                            b
                        }
                    }
                    Bin::Or => {
                        if a != 0.0 {
                            a
                        } else {
                            b
                        }
                    }
                }
            }
        };
        vals.push(r);
    }
    vals
}

impl Dag {
    /// Nodes reachable from `roots`
    pub fn reachable(&self, roots: &[usize]) -> Vec<bool> {
        let mut seen = vec![false; self.n.len()];
        let mut todo: Vec<usize> = roots.to_vec();
        while let Some(i) = todo.pop() {
            if seen[i] {
                continue;
            }
            seen[i] = true;
            match self.n[i] {
                Ex::U(_, a) => todo.push(a),
                Ex::B(_, a, b) => {
                    todo.push(a);
                    todo.push(b);
                }
                _ => (),
            }
        }
        seen
    }
}

/// Regular-point rule (DESIGN 11.3): `vals` are the f32 values of every node
/// at a point.  The point is *regular* if no reachable node is NaN and no
/// zero feeds an operation that is sensitive to the sign of zero (reciprocal,
/// division, modulo, four-quadrant arctangent).  Evaluator kinds legitimately
/// differ in the sign of a computed zero, so irregular points are outside
/// what the value-comparing oracles may demand.
pub fn regular_point(d: &Dag, reach: &[bool], vals: &[f32]) -> bool {
    regular_point_ex(d, reach, vals, false)
}

/// [`regular_point`] with the NaN clause optional: at the very point a
/// *point* trace was recorded no interval enclosure is involved, so NaN
/// intermediates are within the claim there; the sign-of-zero / pole clauses
/// stay (evaluator kinds may still part ways at such operations).
pub fn regular_point_ex(
    d: &Dag,
    reach: &[bool],
    vals: &[f32],
    allow_nan: bool,
) -> bool {
    let no_nan =
        allow_nan || vals.iter().zip(reach).all(|(v, r)| !*r || !v.is_nan());
    // Within rounding distance of a discontinuity or pole an ulp-level
    // difference between evaluators (libm's transcendental functions are not
    // monotone to the last bit: atan2f(0.05, -1.4e-14) < atan2f(0.05, -0.0))
    // is amplified without bound, e.g. by tan at pi/2.  Interval enclosure
    // itself is only promised "up to a few ulps", so such points are outside
    // what the value-comparing oracles may demand.
    let near = |a: f32, b: f32| (a - b).abs() <= 1e-5 * a.abs().max(b.abs()).max(1.0);
    let near_int = |a: f32| a.is_finite() && near(a, a.round());
    let ok = d.n.iter().zip(reach).all(|(e, r)| {
        !*r || match e {
            Ex::B(Bin::Atan2, y, x) => {
                // origin, and the branch cut along the negative x axis
                !(vals[*y].abs() <= 1e-6 && vals[*x] <= 1e-6)
                    && !(vals[*x].abs() <= 1e-6 && vals[*y].abs() <= 1e-6)
            }
            Ex::B(Bin::Div, _, b) => vals[*b].abs() > 1e-6,
            Ex::B(Bin::Mod, a, b) => {
                vals[*b].abs() > 1e-6 && !near_int(vals[*a] / vals[*b])
            }
            Ex::B(Bin::Compare, a, b) => !near(vals[*a], vals[*b]),
            Ex::B(Bin::And | Bin::Or, a, _) => {
                vals[*a] == 0.0 || vals[*a].abs() > 1e-6
            }
            Ex::U(Un::Recip, a) => vals[*a].abs() > 1e-6,
            Ex::U(Un::Not, a) => vals[*a] == 0.0 || vals[*a].abs() > 1e-6,
            Ex::U(Un::Tan, a) => vals[*a].cos().abs() > 1e-3,
            Ex::U(Un::Floor | Un::Ceil, a) => !near_int(vals[*a]),
            Ex::U(Un::Round, a) => !near_int(vals[*a] + 0.5),
            Ex::U(Un::Ln, a) => vals[*a].abs() > 1e-6,
            _ => true,
        }
    });
    no_nan && ok
}
