//! E1 par-sim: real `pixel::render`, `voxel::render` and `Octree::build` run
//! on the simulated fork-join executor (C06, C07, C09).
use crate::chooser::{Chooser, mix};
use crate::common::*;
use crate::gen_::{
    Dual, ShapeGen, eval_dual, eval_f32, gen_csg, gen_func_with, regular_point,
};
use crate::rt::{self, CancelPlan, Shared};
use fidget_core::{
    Context,
    context::Node,
    eval::{Function, MathFunction},
    render::{
        CancelToken, ImageSize, RenderHints, ThreadPool, TileSizes, VoxelSize,
    },
    shape::{Shape, ShapeVars},
    var::Var,
    vm::{GenericVmFunction, VmFunction},
};
use fidget_jit::JitFunction;
use fidget_mesh::{Octree, Settings};
use fidget_raster::{pixel, voxel};
use nalgebra::{Matrix3, Matrix4, Point2, Point3, Vector3};
use std::collections::HashMap;

#[derive(Copy, Clone, Debug, PartialEq, Eq)]
pub enum Kind {
    D2,
    D3,
    Mesh,
}

pub struct Work {
    pub kind: Kind,
    pub sg: ShapeGen,
    pub backend: Backend,
    pub w: u32,
    pub h: u32,
    pub d: u32,
    pub tiles: Option<Vec<usize>>,
    pub m3: Matrix3<f32>,
    pub m4: Matrix4<f32>,
    pub pixel_perfect: bool,
    pub z: f32,
    pub depth: u8,
    /// mmap granularity knob (JIT): None = the real page size
    pub page: Option<usize>,
    /// one of the bundled models instead of the generated shape
    pub model: Option<&'static str>,
    /// the shape is a random expression (may be discontinuous)
    pub random_expr: bool,
    /// 2-D only: the field is `shape + n` with `n` a NaN whose bit pattern is
    /// one of the renderer's own fill encodings (the image format boxes fills
    /// into NaN payloads; a NaN *value* must never be mistaken for one);
    /// `(bits, as a constant instead of a bound variable)`
    pub nan_field: Option<(u32, bool)>,
    /// 3-D only, *exact grid* workload (identity view, power-of-two sides, so
    /// that every voxel position is computed exactly by any arithmetic path):
    /// `(axis, voxel index, variant)` adds a term to the CSG shape whose value
    /// is exactly `+0.0` (variant 0) or `-0.0` (1) on the voxel layer
    /// `axis == index`, positive beyond and negative before it, or (2) a NaN
    /// with the sign bit set for every voxel before the layer, or (3, 4) a
    /// NaN everywhere (positive, negative).  Zero and NaN are not negative:
    /// the statement's "highest voxel whose value is negative" is then decided
    /// without a rounding band for those voxels.
    pub exact_grid: Option<(usize, u32, u32)>,
}

impl Work {
    pub fn describe(&self) -> String {
        format!(
            "{:?} {:?} {}x{}x{} tiles={:?} pp={} z={} depth={} vars={:?} model={:?} shape={}",
            self.kind,
            self.backend,
            self.w,
            self.h,
            self.d,
            self.tiles,
            self.pixel_perfect,
            self.z,
            self.depth,
            self.sg.var_values,
            self.model,
            if self.model.is_some() {
                "(bundled model)".to_string()
            } else {
                self.sg.dag.describe(self.sg.root)
            }
        )
    }
}

const TILES_2D: &[&[usize]] = &[
    &[8],
    &[16, 4],
    &[32, 8, 2],
    &[24, 12, 4],
    &[4],
    &[12, 6, 2],
    &[16],
    &[10, 5],
    &[64, 16, 4],
    &[128, 32, 8],
    &[6, 3, 1],
    &[2, 1],
    // leaf tiles of several thousand pixels (added after seeded change
    // C06-u): whatever batches, chunks or caps the per-pixel evaluation of a
    // leaf is cut into, a leaf of 5 184 .. 16 384 pixels crosses it, also at a
    // size that divides no power of two
    &[96],
    &[72],
    &[200, 100],
    &[128],
];

const TILES_3D: &[&[usize]] = &[
    &[8],
    &[16, 4],
    &[8, 4, 2],
    &[12, 4],
    &[4],
    &[16, 8],
    &[32, 8],
    &[6, 3],
    &[24, 12, 4],
    &[10, 5],
    &[4, 2, 1],
    &[64, 16, 8],
    // leaf tiles above 8 (added after seeded change C07-q): more than 64
    // columns per leaf, so per-leaf batches of hits and gradients are not
    // bounded by 64
    &[16],
    &[12],
    &[32, 16],
    &[10],
    &[24, 12],
    &[9, 3],
    // leaves of 8 000 and 13 824 voxels
    &[20],
    &[24],
];

fn gen_mat3(ch: &mut Chooser, allow_persp: bool, extent: f32) -> Matrix3<f32> {
    let mut m = Matrix3::identity();
    if ch.choose("m3_identity", 3) == 0 {
        return m;
    }
    let s = *ch.pick("m3_scale", &[1.0f32, 0.5, 2.0, 1.25, 0.8, 1.7]);
    let sy = if ch.odds("m3_aniso", 1, 4) {
        *ch.pick("m3_scale_y", &[1.0f32, 0.6, 1.5])
    } else {
        1.0
    };
    let th = ch.float_sym("m3_rot", std::f32::consts::PI, 12);
    let (sn, cs) = th.sin_cos();
    m[(0, 0)] = cs * s;
    m[(0, 1)] = -sn * s * sy;
    m[(1, 0)] = sn * s;
    m[(1, 1)] = cs * s * sy;
    m[(0, 2)] = ch.float_sym("m3_t", 0.6, 6);
    m[(1, 2)] = ch.float_sym("m3_t", 0.6, 6);
    if ch.odds("m3_mirror", 1, 5) {
        // a reflection (negative determinant), e.g. image rows running down
        let c = ch.choose("m3_mirror_axis", 2) as usize;
        m[(0, c)] = -m[(0, c)];
        m[(1, c)] = -m[(1, c)];
    }
    if ch.odds("m3_shear", 1, 6) {
        m[(0, 1)] += ch.float_sym("m3_shear_v", 0.4, 4);
    }
    // A projective 3x3 matrix also rescales the slice height by the
    // homogeneous coordinate inside the renderer; only z-independent shapes
    // get one (see DESIGN.md, C06 scope)
    if allow_persp && ch.odds("m3_persp", 1, 8) {
        // keep the homogeneous divisor within [0.6, 1.4] over the image
        m[(2, 0)] = ch.float_sym("m3_persp_v", 0.2 / extent, 3);
        m[(2, 1)] = ch.float_sym("m3_persp_v", 0.2 / extent, 3);
    } else if allow_persp && ch.odds("m3_homogeneous_scale", 1, 6) {
        // no perspective terms, but a homogeneous coordinate other than 1
        // (a zoom written as diag(1, 1, w), or a matrix times a scalar)
        m[(2, 2)] = *ch.pick("m3_w", &[2.0f32, 0.5, 1.5, -1.0]);
    }
    m
}

fn gen_mat4(ch: &mut Chooser, extent: f32) -> Matrix4<f32> {
    if ch.choose("m4_identity", 3) == 0 {
        return Matrix4::identity();
    }
    // independent ingredients (see e3::gen_transform)
    let mut m = Matrix4::identity();
    if ch.flag("m4_has_rot") {
        let axis = match ch.choose("m4_axis", 4) {
            0 => Vector3::z(),
            1 => Vector3::x(),
            2 => Vector3::y(),
            _ => Vector3::new(1.0, 1.0, 1.0).normalize(),
        };
        let th = ch.float_sym("m4_rot", std::f32::consts::PI, 12);
        m = Matrix4::from_axis_angle(&nalgebra::Unit::new_normalize(axis), th);
    }
    if ch.flag("m4_has_scale") {
        let s = *ch.pick("m4_scale", &[1.0f32, 0.5, 2.0, 1.25, 0.8, 1.6]);
        m *= Matrix4::new_scaling(s);
        if ch.odds("m4_aniso", 1, 3) {
            m *= Matrix4::new_nonuniform_scaling(&Vector3::new(1.0, 0.7, 1.3));
        }
    }
    if ch.odds("m4_mirror", 1, 5) {
        // a reflection of one axis (negative determinant)
        let mut d = Vector3::new(1.0, 1.0, 1.0);
        d[ch.choose("m4_mirror_axis", 3) as usize] = -1.0;
        m *= Matrix4::new_nonuniform_scaling(&d);
    }
    if ch.flag("m4_has_translation") {
        let t = Vector3::new(
            ch.float_sym("m4_t", 0.5, 5),
            ch.float_sym("m4_t", 0.5, 5),
            ch.float_sym("m4_t", 0.5, 5),
        );
        m = Matrix4::new_translation(&t) * m;
    }
    if ch.odds("m4_persp", 1, 6) {
        // keep the homogeneous divisor within [0.6, 1.4] over the grid
        m[(3, 2)] = ch.float_sym("m4_persp_v", 0.4 / extent, 4);
        if ch.odds("m4_persp_xy", 1, 3) {
            // a general projective row; the divisor stays within [0.3, 1.7]
            m[(3, 0)] = ch.float_sym("m4_persp_v", 0.15 / extent, 3);
            m[(3, 1)] = ch.float_sym("m4_persp_v", 0.15 / extent, 3);
        }
    } else if ch.odds("m4_homogeneous_scale", 1, 6) {
        // bottom row [0, 0, 0, w] with w != 1
        m[(3, 3)] = *ch.pick("m4_w", &[2.0f32, 0.5, 1.5, -1.0]);
    }
    m
}

pub fn gen_work(ch: &mut Chooser, kind: Kind, tier: Tier) -> Work {
    let backend = match ch.choose("backend", 5) {
        0 | 1 => Backend::Vm,
        2 | 3 => Backend::Jit,
        _ => Backend::Vm3,
    };
    // up to 6 bound variables in a share of the workloads: the renderers and
    // the mesher look variables up by identity through the shape wrappers
    let max_vars = *ch.pick("max_vars", &[2usize, 2, 0, 6]);
    let dims = match kind {
        Kind::D2 => {
            if ch.flag("d2_solid") {
                3
            } else {
                2
            }
        }
        _ => 3,
    };
    let mut sg = gen_csg(ch, dims, max_vars);
    // a share of the workloads renders a random expression instead of a CSG
    // shape ("random expressions" in the properties' quantifiers)
    // (not for meshing: the mesher's edge search assumes a sign change
    // along every edge whose corners differ in sign and panics on NaN-valued
    // or discontinuous fields; C08 restricts meshing to CSG of primitives)
    let random_expr = kind != Kind::Mesh && ch.odds("random_expr", 1, 7);
    if random_expr {
        let fg = gen_func_with(ch, 24, 0);
        sg = ShapeGen {
            root: fg.outputs[0],
            dag: fg.dag,
            nvars: 0,
            var_values: vec![],
        };
    }
    let big = tier == Tier::Thorough;
    let (w, h, d, tiles, depth) = match kind {
        Kind::D2 => {
            // a rare large image: several root tiles of the default list,
            // sizes beyond 128 and 256 ("all image sizes")
            if ch.odds("long_axis", 1, 60) {
                // a long thin image: one side 330..=700, the other 1..=24
                // root tiles beyond 256 are legal too (they are trimmed only
                // when they exceed the image)
                let tiles = match ch.choose("tiles_large", 7) {
                    0 => None,
                    1 => Some(vec![64, 16, 4]),
                    2 => Some(vec![128, 32, 8]),
                    3 => Some(vec![32, 8, 2]),
                    4 => Some(vec![512, 64, 8]),
                    5 => Some(vec![320, 32, 8]),
                    _ => Some(vec![384, 96, 12]),
                };
                let long = match tiles.as_ref().map(|t| t[0]).filter(|r| *r > 256) {
                    Some(root) => root as u32 + 1 + ch.choose("long_over_root", 150),
                    None => 330 + ch.choose("long_len", 371),
                };
                let short = 1 + ch.choose("short_len", 24);
                let (w, h) = if ch.flag("long_is_w") {
                    (long, short)
                } else {
                    (short, long)
                };
                (w, h, 0, tiles, 0)
            } else if ch.odds("large_image", 1, 50) {
                let w = 100 + ch.choose("w_large", 221);
                let h = if ch.odds("square", 1, 4) {
                    w
                } else {
                    100 + ch.choose("h_large", 221)
                };
                let tiles = match ch.choose("tiles_large", 7) {
                    0 => None,
                    1 => Some(vec![64, 16, 4]),
                    2 => Some(vec![128, 32, 8]),
                    3 => Some(vec![96]),
                    4 => Some(vec![200, 100]),
                    5 => Some(vec![192, 96]),
                    _ => Some(vec![32, 8, 2]),
                };
                (w, h, 0, tiles, 0)
            } else {
            let lim = if big { 96 } else { 56 };
            let w = 1 + ch.choose("w", lim);
            let h = if ch.odds("square", 1, 4) {
                w
            } else {
                1 + ch.choose("h", lim)
            };
            let tiles = if ch.odds("tiles_default", 1, 10) {
                None
            } else {
                Some(ch.pick("tiles", TILES_2D).to_vec())
            };
            (w, h, 0, tiles, 0)
            }
        }
        Kind::D3 => {
            if ch.odds("long_axis", 1, 60) {
                // one long axis, the other two short: sizes beyond 128 and
                // 256 along any one axis at the cost of a small grid
                // (random expressions keep to the small roots: their
                // reference costs far more per voxel, and it covers one root
                // tile above the grid too)
                let tiles = match ch.choose("tiles_large", if random_expr { 4 } else { 7 }) {
                    0 => None,
                    1 => Some(vec![64, 16, 8]),
                    2 => Some(vec![32, 8]),
                    3 => Some(vec![24, 12, 4]),
                    4 => Some(vec![512, 64, 8]),
                    5 => Some(vec![320, 32, 8]),
                    _ => Some(vec![288, 96, 12]),
                };
                let big_root = tiles.as_ref().map(|t| t[0]).filter(|r| *r > 256);
                let a = 1 + ch.choose("short_a", 12);
                let b = 1 + ch.choose("short_b", 12);
                let (w, h, d) = if let Some(root) = big_root {
                    // a root tile beyond 256 survives trimming only if the
                    // image is wider or taller than it; the other sides are
                    // tiny (the reference also evaluates one root tile above
                    // the grid)
                    let (a, b) = (1, 1 + b % 3);
                    let long = root as u32 + 1 + ch.choose("long_over_root", 40);
                    if ch.flag("long_is_w") { (long, a, b) } else { (a, long, b) }
                } else {
                    let long = 150 + ch.choose("long_len", 181);
                    match ch.choose("long_which", 3) {
                        0 => (long, a, b),
                        1 => (a, long, b),
                        _ => (a, b, long),
                    }
                };
                (w, h, d, tiles, 0)
            } else if ch.odds("large_image", 1, 150) {
                // rare large grid: several root tiles of the default list
                let w = 50 + ch.choose("w_large", 91);
                let h = 50 + ch.choose("h_large", 91);
                let d = 20 + ch.choose("d_large", 61);
                let tiles = match ch.choose("tiles_large", 4) {
                    0 => None,
                    1 => Some(vec![64, 16, 8]),
                    2 => Some(vec![32, 8]),
                    _ => Some(vec![24, 12, 4]),
                };
                (w, h, d, tiles, 0)
            } else {
            let lim = if big { 36 } else { 24 };
            let w = 1 + ch.choose("w", lim);
            let h = 1 + ch.choose("h", lim);
            let d = 1 + ch.choose("d", if big { 28 } else { 20 });
            let tiles = if ch.odds("tiles_default", 1, 16) {
                None
            } else {
                Some(ch.pick("tiles", TILES_3D).to_vec())
            };
            (w, h, d, tiles, 0)
            }
        }
        Kind::Mesh => {
            // 0 (a single cell) ..= 4 (5 in the thorough tier)
            let depth = ch.choose("depth", if big { 6 } else { 5 }) as u8;
            (0, 0, 0, None, depth)
        }
    };
    // world coordinates span [-extent, extent]: screen_to_world scales by
    // 2 / min(size)
    let extent = match kind {
        Kind::D2 => w.max(h) as f32 / w.min(h) as f32,
        Kind::D3 => w.max(h).max(d) as f32 / w.min(h).min(d) as f32,
        Kind::Mesh => 1.0,
    } + 1.0;
    let mut m3 = gen_mat3(ch, dims == 2, extent);
    let mut m4 = gen_mat4(ch, extent);
    // strips and columns (one side far longer than the others): the shape is
    // a few short-sides wide, so it is moved to a drawn position along the
    // long axis (otherwise it would always sit in the middle and most of the
    // length would only ever see empty tiles); the view is a pure translation
    let sizes = [w, h, d];
    let used = if kind == Kind::D2 { 2 } else { 3 };
    let short = sizes[..used].iter().copied().min().unwrap_or(1).max(1);
    if kind != Kind::Mesh {
        if let Some(a) = (0..used).find(|a| sizes[*a] >= 8 * short && sizes[*a] >= 150)
        {
            let half = sizes[a] as f32 / short as f32;
            let u = (half - 1.0).max(0.0) * ch.float_sym("long_shift", 1.0, 16);
            m3 = Matrix3::identity();
            m4 = Matrix4::identity();
            if kind == Kind::D2 {
                m3[(a, 2)] = -u;
            } else {
                m4[(a, 3)] = -u;
            }
        }
    }
    let pixel_perfect = ch.odds("pixel_perfect", 1, 4);
    let z = if dims == 3 {
        ch.float_sym("z", 0.5, 5)
    } else {
        0.0
    };
    let model_drawn = if !random_expr && ch.odds("bundled_model", 1, 14) {
        Some(match kind {
            Kind::D2 => *ch.pick(
                "model_2d",
                &["hi.vm", "quarter.vm", "tanglecube.vm", "hi.vm"],
            ),
            _ => *ch.pick(
                "model_3d",
                &["tanglecube.vm", "bear.vm", "colonnade.vm", "tanglecube.vm"],
            ),
        })
    } else {
        None
    };
    // the reference evaluates every voxel of the grid plus one root tile
    // above it with `Context::eval` (milliseconds per call on the 600-800
    // clause models): the bundled models are not combined with root tiles
    // beyond 64 in 3-D
    let model_drawn = if kind == Kind::D3
        && tiles.as_ref().map(|t| t[0] > 64).unwrap_or(false)
    {
        None
    } else {
        model_drawn
    };
    // meshing: every depth a `u8` can hold is a legal setting.  Very deep
    // octrees are affordable only where nothing is to be found, so one mesh
    // workload in 80 is `x + 5` (positive over the whole region: a single
    // empty cell) at depth 21..=255
    let (depth, model_drawn) = if kind == Kind::Mesh && ch.odds("deep_empty_mesh", 1, 80) {
        let mut dag = crate::gen_::Dag::default();
        let x = dag.push(crate::gen_::Ex::X);
        let c = dag.push(crate::gen_::Ex::C(5.0));
        let root = dag.push(crate::gen_::Ex::B(crate::gen_::Bin::Add, x, c));
        sg = ShapeGen {
            root,
            dag,
            nvars: 0,
            var_values: vec![],
        };
        (*ch.pick("deep_depth", &[21u8, 22, 23, 31, 64, 255]), None)
    } else {
        (depth, model_drawn)
    };
    // the 600-800 clause models are meshed to depth 3 at most: a depth-5 JIT
    // build of `bear` costs seconds, and a run executes it a dozen times
    let depth = if kind == Kind::Mesh
        && matches!(model_drawn, Some("bear.vm") | Some("colonnade.vm"))
    {
        depth.min(3)
    } else {
        depth
    };
    let nan_field = if kind == Kind::D2
        && model_drawn.is_none()
        && ch.odds("nan_field", 1, 60)
    {
        // the bit pattern of a fill pixel, built with the renderer's own
        // public conversion
        let fill = pixel::RawDistancePixel::from(pixel::DistancePixel::Fill {
            depth: ch.choose("nan_fill_depth", 256) as u8,
            inside: ch.choose("nan_fill_inside", 4) != 0,
        });
        // SAFETY: `RawDistancePixel` is `repr(C)` around one `f32`
        let mut bits: u32 = unsafe { std::mem::transmute(fill) };
        if ch.flag("nan_sign") {
            bits |= 0x8000_0000;
        }
        Some((bits, ch.flag("nan_as_constant")))
    } else {
        None
    };
    let mut exact_grid = None;
    let (mut w, mut h, mut d, mut tiles, mut m4) = (w, h, d, tiles, m4);
    if kind == Kind::D3 && !random_expr && model_drawn.is_none() && ch.odds("exact_grid", 1, 25) {
        let side = |ch: &mut Chooser, s: &'static str| *ch.pick(s, &[4u32, 8, 16, 32, 16, 8]);
        w = side(ch, "exact_w");
        h = side(ch, "exact_h");
        d = side(ch, "exact_d");
        m4 = Matrix4::identity();
        tiles = if ch.odds("tiles_default", 1, 8) {
            None
        } else {
            Some(ch.pick("tiles", TILES_3D).to_vec())
        };
        let axis = ch.choose("exact_axis", 3) as usize;
        let len = [w, h, d][axis];
        let idx = ch.choose("exact_index", len);
        let variant = ch.choose("exact_variant", 5);
        exact_grid = Some((axis, idx, variant));
        // the term is part of the shape's expression, so that the harness's
        // own evaluators (gradient reference, tie margins) see it too
        use crate::gen_::{Bin, Ex, Un};
        let size = VoxelSize::new(w, h, d);
        let mat = m4 * size.screen_to_world();
        let k = idx as f32;
        let c = mat.transform_point(&Point3::new(k, k, k))[axis];
        let dag = &mut sg.dag;
        let a = dag.push([Ex::X, Ex::Y, Ex::Z][axis]);
        let cn = dag.push(Ex::C(c));
        sg.root = match variant {
            0 => {
                // +0.0 on the layer, positive beyond, negative before
                let t = dag.push(Ex::B(Bin::Sub, a, cn));
                dag.push(Ex::B(Bin::Max, sg.root, t))
            }
            1 => {
                // -0.0 on the layer
                let t = dag.push(Ex::B(Bin::Sub, cn, a));
                let t = dag.push(Ex::U(Un::Neg, t));
                dag.push(Ex::B(Bin::Max, sg.root, t))
            }
            2 => {
                // 0 * sqrt(axis - c): NaN (sign bit set on x86-64) before the
                // layer, 0 on it and beyond
                let t = dag.push(Ex::B(Bin::Sub, a, cn));
                let t = dag.push(Ex::U(Un::Sqrt, t));
                let z = dag.push(Ex::C(0.0));
                let t = dag.push(Ex::B(Bin::Mul, t, z));
                dag.push(Ex::B(Bin::Add, sg.root, t))
            }
            v => {
                // a NaN everywhere, either sign, as a bound variable
                let n = f32::from_bits(if v == 3 { 0x7fc0_0000 } else { 0xffc0_0000 });
                let t = dag.push(Ex::V(sg.nvars));
                sg.nvars += 1;
                sg.var_values.push(n);
                dag.push(Ex::B(Bin::Add, sg.root, t))
            }
        };
    }
    Work {
        kind,
        sg,
        nan_field,
        exact_grid,
        backend,
        w,
        h,
        d,
        tiles,
        m3,
        m4,
        pixel_perfect,
        z,
        depth,
        random_expr,
        model: model_drawn,
        // regrowth is exercised heavily by E2; here only a share of the
        // workloads use it (every regrow is an mmap/munmap pair, which
        // serialises the 16 simulation threads on the process mmap lock)
        page: match ch.choose("page", 8) {
            6 => Some(256),
            7 => Some(64),
            _ => None,
        },
    }
}

pub struct Built {
    pub ctx: Context,
    pub root: Node,
    pub vars: Vec<Var>,
    pub var_map: HashMap<Var, f32>,
}

pub fn build(work: &Work) -> Built {
    if let Some(m) = work.model {
        // the bundled models are part of the repository under test
        let path = format!("/repo/models/{m}");
        if let Ok(mut f) = std::fs::File::open(&path) {
            if let Ok((ctx, root)) = Context::from_text(&mut f) {
                return Built {
                    ctx,
                    root,
                    vars: vec![],
                    var_map: HashMap::new(),
                };
            }
        }
    }
    let mut ctx = Context::new();
    let vars: Vec<Var> = (0..work.sg.nvars).map(|_| Var::new()).collect();
    let nodes = work.sg.dag.lower(&mut ctx, &vars);
    let root = nodes[work.sg.root];
    let mut var_map = HashMap::new();
    for (v, val) in vars.iter().zip(&work.sg.var_values) {
        var_map.insert(*v, *val);
    }
    let (mut vars, mut root) = (vars, root);
    if let Some((bits, as_const)) = work.nan_field {
        let n = f32::from_bits(bits);
        let term = if as_const {
            ctx.constant(n)
        } else {
            let v = Var::new();
            vars.push(v);
            var_map.insert(v, n);
            ctx.var(v)
        };
        root = ctx.add(root, term).unwrap();
    }
    Built {
        ctx,
        root,
        vars,
        var_map,
    }
}

fn shape_vars(b: &Built, work: &Work) -> ShapeVars<f32> {
    let mut sv = ShapeVars::new();
    let _ = work;
    for v in &b.vars {
        sv.insert(v.index().unwrap(), b.var_map[v]);
    }
    sv
}

#[derive(Clone, Debug, Default)]
pub struct ExecInfo {
    pub polls: u64,
    pub items: u64,
    pub segs: u64,
    pub cancel_fired: bool,
    pub polls_after_cancel: u64,
    pub stop_unseen: u64,
    pub sched: u64,
    pub preemptions: u64,
}

fn take_info(st: &Shared) -> ExecInfo {
    let s = st.borrow();
    ExecInfo {
        polls: s.polls,
        items: s.items,
        segs: s.segs,
        cancel_fired: s.cancel_fired,
        polls_after_cancel: s.polls_after_cancel,
        stop_unseen: s.stop_unseen_items,
        sched: s.sched_hash,
        preemptions: s.preemptions,
    }
}

/// Output of one execution, encoded so that equality is bit-equality
#[derive(Clone, Debug, PartialEq, Eq)]
pub enum Out {
    D2(Vec<u64>),
    D3(Vec<[u32; 4]>),
    /// Sorted canonical triangles (vertex positions as bit triples)
    Mesh(Vec<[[u32; 3]; 3]>),
}

impl Out {
    pub fn digest(&self) -> u64 {
        let mut h = 0x0u64;
        match self {
            Out::D2(v) => {
                for x in v {
                    h = mix(h, *x);
                }
            }
            Out::D3(v) => {
                for x in v {
                    for y in x {
                        h = mix(h, *y as u64);
                    }
                }
            }
            Out::Mesh(v) => {
                for t in v {
                    for p in t {
                        for c in p {
                            h = mix(h, *c as u64);
                        }
                    }
                }
            }
        }
        h
    }
}

fn enc_px(p: pixel::RawDistancePixel) -> u64 {
    match p.unpack() {
        pixel::DistancePixel::Value(v) => v.to_bits() as u64,
        pixel::DistancePixel::Fill { depth, inside } => {
            (1u64 << 40) | ((depth as u64) << 1) | inside as u64
        }
    }
}

fn canon_mesh(m: &fidget_mesh::Mesh) -> Vec<[[u32; 3]; 3]> {
    let mut out: Vec<[[u32; 3]; 3]> = m
        .triangles
        .iter()
        .map(|t| {
            let p = [t.x, t.y, t.z].map(|i| {
                let v = m.vertices[i];
                [v.x.to_bits(), v.y.to_bits(), v.z.to_bits()]
            });
            // rotate so the smallest vertex comes first (keeps winding)
            let k = (0..3).min_by_key(|i| p[*i]).unwrap();
            [p[k], p[(k + 1) % 3], p[(k + 2) % 3]]
        })
        .collect();
    out.sort();
    out
}

fn exec_generic<F: Function + RenderHints + MathFunction + Clone>(
    st: &Shared,
    b: &Built,
    work: &Work,
    pool: Option<usize>,
    plan: CancelPlan,
) -> Result<Option<Out>, String> {
    let shape = Shape::<F>::new(&b.ctx, b.root).map_err(|e| e.to_string())?;
    let sv = shape_vars(b, work);
    let token = CancelToken::new();
    let global = ThreadPool::Global;
    let real = REAL_POOL.with(|p| p.borrow_mut().take());
    let threads = match &real {
        Some(p) => Some(p),
        None => pool.map(|_| &global),
    };
    st.borrow_mut().begin_exec(pool, Some(token.clone()), plan);
    st.borrow_mut().page = work.page;
    {
        // one pool execution in four runs its segments on real OS threads
        // that are handed the baton at sched points (VM op loops, polls, item
        // boundaries): interleavings inside items, still one seed = one run
        let s = &mut *st.borrow_mut();
        s.preempt = pool.is_some() && s.ch.choose("preemptive", 4) == 0;
    }
    if real.is_none() {
        rt::install(st);
    }
    let r = rt::catch(|| match work.kind {
        Kind::D2 => {
            let cfg = pixel::RenderConfig {
                image_size: ImageSize::new(work.w, work.h),
                world_to_model: work.m3,
                pixel_perfect: work.pixel_perfect,
                z: work.z,
            };
            let ec = pixel::EvalConfig {
                tile_sizes: work
                    .tiles
                    .as_ref()
                    .map(|t| TileSizes::new(t).unwrap()),
                threads,
                cancel: token.clone(),
            };
            let bound = shape.bind(&sv).unwrap();
            pixel::render(bound, &cfg, &ec).map(|img| {
                assert_eq!(img.width(), work.w as usize);
                assert_eq!(img.height(), work.h as usize);
                Out::D2(img.iter().map(|p| enc_px(*p)).collect())
            })
        }
        Kind::D3 => {
            let cfg = voxel::RenderConfig {
                image_size: VoxelSize::new(work.w, work.h, work.d),
                world_to_model: work.m4,
            };
            let ec = voxel::EvalConfig {
                tile_sizes: work
                    .tiles
                    .as_ref()
                    .map(|t| TileSizes::new(t).unwrap()),
                threads,
                cancel: token.clone(),
            };
            let bound = shape.bind(&sv).unwrap();
            voxel::render(bound, &cfg, &ec).map(|img| {
                assert_eq!(img.width(), work.w as usize);
                assert_eq!(img.height(), work.h as usize);
                Out::D3(
                    img.iter()
                        .map(|p| {
                            [
                                p.depth,
                                p.normal[0].to_bits(),
                                p.normal[1].to_bits(),
                                p.normal[2].to_bits(),
                            ]
                        })
                        .collect(),
                )
            })
        }
        Kind::Mesh => {
            let settings = Settings {
                depth: work.depth,
                world_to_model: work.m4,
                threads,
                cancel: token.clone(),
            };
            let bound = shape.bind(&sv).unwrap();
            Octree::build(&bound, &settings)
                .map(|o| Out::Mesh(canon_mesh(&o.walk_dual())))
        }
    });
    rt::uninstall();
    if let Some(p) = real {
        SPENT_POOL.with(|s| *s.borrow_mut() = Some(p));
    }
    r
}

thread_local! {
    /// The real pool the last execution ran on, handed back for another call
    static SPENT_POOL: std::cell::RefCell<Option<ThreadPool>> =
        const { std::cell::RefCell::new(None) };
}

thread_local! {
    /// Self-test only: run the next execution on this real rayon pool, with
    /// no simulator installed (SimVec then forwards to real rayon)
    static REAL_POOL: std::cell::RefCell<Option<ThreadPool>> =
        const { std::cell::RefCell::new(None) };
}

/// Executor-model validation (a self-test of the stub, not a verdict): the
/// sequential result, real rayon pools of 1, 3 and 8 threads and the simulated
/// executor must all agree on the unchanged tree.
pub fn selftest_executor(n: u64) -> i32 {
    use crate::rt::RunState;
    let mut bad = 0;
    for i in 0..n {
        let r = rt::on_fresh_thread(1000 + i, move || {
            let st: Shared = std::rc::Rc::new(std::cell::RefCell::new(
                RunState::new(Chooser::search(crate::chooser::mix(0xE8EC, i))),
            ));
            let kind = [Kind::D2, Kind::D3, Kind::Mesh][(i % 3) as usize];
            let work = gen_work(&mut st.borrow_mut().ch, kind, Tier::Quick);
            let b = build(&work);
            let reference = exec(&st, &b, &work, None, CancelPlan::Never);
            let mut diffs = vec![];
            for k in [1usize, 3, 8] {
                let pool = rayon::ThreadPoolBuilder::new()
                    .num_threads(k)
                    .build()
                    .unwrap();
                REAL_POOL.with(|p| {
                    *p.borrow_mut() = Some(ThreadPool::Custom(pool))
                });
                let o = exec(&st, &b, &work, Some(k), CancelPlan::Never);
                if o != reference {
                    diffs.push(format!("real rayon pool of {k}"));
                }
            }
            for _ in 0..3 {
                let p = draw_pool(&st);
                let o = exec(&st, &b, &work, Some(p), CancelPlan::Never);
                if o != reference {
                    diffs.push(format!("simulated pool of {p}"));
                }
            }
            (work.describe(), diffs)
        });
        match r {
            Ok((_, d)) if d.is_empty() => (),
            Ok((w, d)) => {
                eprintln!("EXECUTOR-MODEL-MISMATCH workload {i}: {d:?} differ from sequential: {w}");
                bad += 1;
            }
            Err(e) => {
                eprintln!("executor selftest run {i} aborted: {e}");
                bad += 1;
            }
        }
    }
    println!("executor model: {n} workloads x (sequential, real rayon 1/3/8, 3 simulated pools), mismatches={bad}");
    let fb = selftest_facade(40);
    if bad > 0 || fb > 0 { 2 } else { 0 }
}

/// The `SimVec` facade shadows more of rayon's API than the library uses
/// today (so that a change of the fan-out idiom stays on the simulated path):
/// every shadowed method must agree with its sequential meaning, with and
/// without a simulator installed.
fn selftest_facade(n: u64) -> u64 {
    use crate::rt::RunState;
    use fidget_core::verif::SimVec;
    let mut bad = 0u64;
    for i in 0..n {
        let r = rt::on_fresh_thread(7000 + i, move || {
            let st: Shared = std::rc::Rc::new(std::cell::RefCell::new(
                RunState::new(Chooser::search(crate::chooser::mix(0xFACA, i))),
            ));
            let len = (i % 23) as usize;
            let data: Vec<u64> = (0..len as u64).map(|k| k * 7 + 3).collect();
            let mut errs: Vec<String> = vec![];
            for mode in 0..3 {
                // 0: no simulator (real rayon), 1: simulated, 2: simulated + preemptive
                if mode > 0 {
                    st.borrow_mut().pool = Some(draw_pool(&st));
                    st.borrow_mut().preempt = mode == 2;
                    rt::install(&st);
                }
                let v = || SimVec::new(data.clone());
                let seq: Vec<u64> = data.iter().map(|x| x * 2).collect();
                let mut chk = |name: &str, ok: bool| {
                    if !ok {
                        errs.push(format!("{name} (mode {mode}, len {len})"));
                    }
                };
                let a: Vec<u64> = v().into_par_iter().map(|x| x * 2).collect();
                chk("map.collect", a == seq);
                let a: Vec<u64> = v().par_iter().map(|x| *x * 2).collect();
                chk("par_iter.map.collect", a == seq);
                let a: Vec<u64> = v()
                    .into_par_iter()
                    .map_with(1u64, |s, x| {
                        *s += 1;
                        x * 2
                    })
                    .collect();
                chk("map_with.collect", a == seq);
                let a: Vec<(usize, u64)> =
                    v().into_par_iter().enumerate().map(|(k, x)| (k, x)).collect();
                chk(
                    "enumerate",
                    a.iter().enumerate().all(|(k, (j, x))| k == *j && *x == data[k]),
                );
                let a: Vec<u64> = v()
                    .into_par_iter()
                    .with_min_len(2)
                    .map_init(|| 0u64, |_, x| x)
                    .map(|x| x * 2)
                    .collect();
                chk("map_init.map.collect", a == seq);
                let a: Result<Vec<u64>, u64> = v()
                    .into_par_iter()
                    .map(|x| if x % 5 == 4 { Err(x) } else { Ok(x) })
                    .collect();
                let has_bad = data.iter().any(|x| x % 5 == 4);
                chk("collect result", a.is_err() == has_bad);
                let a: Vec<Result<u64, u64>> = v()
                    .into_par_iter()
                    .map(|x| if x % 5 == 4 { Err(x) } else { Ok(x) })
                    .collect();
                chk("collect vec of results visits all", a.len() == len);
                let sum = std::sync::atomic::AtomicU64::new(0);
                v().into_par_iter().for_each(|x| {
                    sum.fetch_add(x, std::sync::atomic::Ordering::Relaxed);
                });
                chk(
                    "for_each",
                    sum.into_inner() == data.iter().sum::<u64>(),
                );
                let sum = std::sync::atomic::AtomicU64::new(0);
                v().par_iter().for_each_init(
                    || 0u8,
                    |_, x| {
                        sum.fetch_add(*x, std::sync::atomic::Ordering::Relaxed);
                    },
                );
                chk(
                    "for_each_init",
                    sum.into_inner() == data.iter().sum::<u64>(),
                );
                let r: Option<()> = v()
                    .into_par_iter()
                    .try_for_each(|x| if x % 5 == 4 { None } else { Some(()) });
                chk("try_for_each", r.is_none() == has_bad);
                let r = v().into_par_iter().map(|x| x).reduce(|| 0, |a, b| a + b);
                chk("reduce", r == data.iter().sum::<u64>());
                chk("count", v().into_par_iter().map(|x| x).count() == len);
                let mut a: Vec<u64> =
                    v().into_iter().par_bridge().map(|x| x * 2).collect();
                a.sort();
                chk("par_bridge.map.collect", a == seq);
                let a: Vec<u64> = v()
                    .par_chunks(3)
                    .map(|c| c.iter().sum::<u64>())
                    .collect();
                let b: Vec<u64> = data.chunks(3).map(|c| c.iter().sum()).collect();
                chk("par_chunks", a == b);
                chk("deref", v().len() == len && v().iter().count() == len);
                if mode > 0 {
                    rt::uninstall();
                    st.borrow_mut().preempt = false;
                }
            }
            errs
        });
        match r {
            Ok(e) if e.is_empty() => (),
            Ok(e) => {
                eprintln!("FACADE-MISMATCH seed {i}: {e:?}");
                bad += 1;
            }
            Err(e) => {
                eprintln!("facade selftest run {i} aborted: {e}");
                bad += 1;
            }
        }
    }
    println!("executor facade: {n} seeds x 3 modes x 16 shadowed rayon idioms, mismatches={bad}");
    bad
}

pub fn exec(
    st: &Shared,
    b: &Built,
    work: &Work,
    pool: Option<usize>,
    plan: CancelPlan,
) -> Result<Option<Out>, String> {
    match work.backend {
        Backend::Vm => exec_generic::<VmFunction>(st, b, work, pool, plan),
        Backend::Vm3 => {
            exec_generic::<GenericVmFunction<3>>(st, b, work, pool, plan)
        }
        Backend::Jit => exec_generic::<JitFunction>(st, b, work, pool, plan),
    }
}

/// The caller's previous, unrelated call on this thread (one run in four): a
/// render or mesh build of another shape, size, tile list and kind with the
/// same backend, with or without a (simulated) pool.  Whatever the library
/// parks for reuse between calls - thread-local caches, pooled workers,
/// storage - is then dirty when the run's own workload arrives.  Its result
/// is not judged here.
fn predecessor_call(st: &Shared, rep: &mut RunReport, work: &Work) {
    if !st.borrow_mut().ch.odds("previous_call_on_this_thread", 1, 4) {
        return;
    }
    let (w2, pool) = {
        let ch = &mut st.borrow_mut().ch;
        let kind = *ch.pick("previous_call_kind", &[Kind::D2, Kind::D3, Kind::Mesh]);
        let mut w2 = gen_work(ch, kind, Tier::Quick);
        w2.backend = work.backend;
        let pool = if ch.flag("previous_call_pool") {
            Some(1 + ch.choose("pool", 16) as usize)
        } else {
            None
        };
        (w2, pool)
    };
    let b2 = build(&w2);
    let _ = exec(st, &b2, &w2, pool, CancelPlan::Never);
    let _ = take_info(st);
    rep.count("fault.unrelated_call_on_this_thread_just_before", 1);
}

fn draw_pool(st: &Shared) -> usize {
    1 + st.borrow_mut().ch.choose("pool", 16) as usize
}

/// Rounding band the properties themselves exempt
fn tau(v: f32) -> f32 {
    1e-4 * v.abs().max(1.0)
}

////////////////////////////////////////////////////////////////////////////////
// C06: 2-D rendering vs per-pixel evaluation

pub fn run_c06(st: &Shared, tier: Tier) -> RunReport {
    let mut rep = RunReport::default();
    let work = gen_work(&mut st.borrow_mut().ch, Kind::D2, tier);
    let b = build(&work);
    rep.sample = work.describe();

    // brute-force reference, once per workload
    let cfg_mat = work.m3 * ImageSize::new(work.w, work.h).screen_to_world();
    // For discontinuous random expressions a last-bit difference in the
    // sample position can flip the value, so those workloads use the same
    // embedding of the 3x3 matrix into 4x4 as the renderer documents (Z row
    // and column of the identity); CSG workloads keep the independent 3x3
    // reference, which is what catches a wrong embedding.
    let embed = {
        let m = cfg_mat.insert_row(2, 0.0);
        let mut m = m.insert_column(2, 0.0);
        m[(2, 2)] = 1.0;
        m
    };
    let mut reference = Vec::with_capacity((work.w * work.h) as usize);
    let mut vars = b.var_map.clone();
    let reach = work.sg.dag.reachable(&[work.sg.root]);
    for j in 0..work.h {
        for i in 0..work.w {
            let p = if work.random_expr {
                let q = embed.transform_point(&Point3::new(
                    i as f32, j as f32, work.z,
                ));
                Point2::new(q.x, q.y)
            } else {
                cfg_mat.transform_point(&Point2::new(i as f32, j as f32))
            };
            vars.insert(Var::X, p.x);
            vars.insert(Var::Y, p.y);
            vars.insert(Var::Z, work.z);
            let mut v = b.ctx.eval(b.root, &vars).unwrap();
            if work.random_expr {
                // irregular points (DESIGN 11.3) are outside the claim: mark
                // them like NaN reference values, which are skipped
                let vals = eval_f32(&work.sg.dag, p.x, p.y, work.z, &[]);
                if !regular_point(&work.sg.dag, &reach, &vals) {
                    v = f32::NAN;
                }
            }
            reference.push(v);
        }
    }

    predecessor_call(st, &mut rep, &work);
    let nconf = 3;
    for c in 0..nconf {
        let pool = if c == 0 { None } else { Some(draw_pool(st)) };
        let out = exec(st, &b, &work, pool, CancelPlan::Never);
        let info = take_info(st);
        rep.evaluations += 1;
        rep.steps += info.items + info.polls;
        account_schedule(&mut rep, &info, pool, &work);
        let out = match out {
            Err(p) => {
                rep.violate("C06", "panic", format!("render panicked: {p}"));
                continue;
            }
            Ok(None) => {
                rep.violate(
                    "C06",
                    "none_without_cancel",
                    "render returned None although never cancelled",
                );
                continue;
            }
            Ok(Some(Out::D2(v))) => v,
            Ok(Some(_)) => unreachable!(),
        };
        if out.len() != reference.len() {
            rep.violate(
                "C06",
                "size",
                format!("{} pixels, expected {}", out.len(), reference.len()),
            );
            continue;
        }
        st.borrow_mut().log_digest("c06_img", Out::D2(out.clone()).digest());
        for (idx, (px, v)) in out.iter().zip(&reference).enumerate() {
            let (i, j) = (idx as u32 % work.w, idx as u32 / work.w);
            if work.nan_field.is_some() {
                // every sample is NaN by construction (a NaN added at the
                // root): NaN is not negative, so no pixel is inside, and in
                // pixel-perfect mode every pixel carries a NaN value
                let is_fill = px >> 40 == 1;
                let inside = if is_fill {
                    px & 1 == 1
                } else {
                    f32::from_bits(*px as u32) < 0.0
                };
                rep.checked_oracle += 1;
                if inside {
                    rep.violate(
                        "C06",
                        "nan_value_reported_inside",
                        format!(
                            "pixel ({i},{j}) inside=true fill={is_fill} but the value there is NaN (bits {:#x})",
                            work.nan_field.unwrap().0
                        ),
                    );
                    break;
                }
                if work.pixel_perfect
                    && (is_fill || !f32::from_bits(*px as u32).is_nan())
                {
                    rep.violate(
                        "C06",
                        "pixel_perfect_value",
                        format!(
                            "pixel ({i},{j}) fill={is_fill} value {} expected NaN",
                            f32::from_bits(*px as u32)
                        ),
                    );
                    break;
                }
                continue;
            }
            if v.is_nan() {
                rep.skipped_oracle += 1;
                continue;
            }
            let is_fill = px >> 40 == 1;
            if work.pixel_perfect {
                if is_fill {
                    rep.violate(
                        "C06",
                        "pixel_perfect_fill",
                        format!("pixel ({i},{j}) is a fill in pixel-perfect mode"),
                    );
                    break;
                }
                let got = f32::from_bits(*px as u32);
                if !(got == *v || (got - v).abs() <= tau(*v)) {
                    rep.violate(
                        "C06",
                        "pixel_perfect_value",
                        format!("pixel ({i},{j}) value {got} expected {v}"),
                    );
                    break;
                }
                rep.checked_oracle += 1;
            } else {
                if v.abs() <= tau(*v) {
                    rep.skipped_oracle += 1;
                    continue;
                }
                let inside = if is_fill {
                    px & 1 == 1
                } else {
                    f32::from_bits(*px as u32) < 0.0
                };
                if inside != (*v < 0.0) {
                    rep.violate(
                        "C06",
                        "inside_mismatch",
                        format!(
                            "pixel ({i},{j}) inside={inside} fill={is_fill} but value {v}"
                        ),
                    );
                    break;
                }
                rep.checked_oracle += 1;
            }
        }
    }
    rep.finish(st)
}

fn account_schedule(
    rep: &mut RunReport,
    info: &ExecInfo,
    pool: Option<usize>,
    work: &Work,
) {
    match pool {
        None => rep.count("sched.no_pool", 1),
        Some(_) => {
            rep.count("sched.pool", 1);
            rep.count("sched.segments", info.segs);
            // (a depth-0 octree is a single cell and is built on the calling
            // thread whatever pool is supplied)
            let fans_out = !(work.kind == Kind::Mesh && work.depth == 0);
            if info.segs == 0 && fans_out {
                // the fan-out did not go through the simulated executor: the
                // seam was bypassed (reported in the evidence and as a
                // WARNING line by the driver)
                rep.count("other.pool_execution_bypassed_the_executor_seam", 1);
            }
            if info.segs >= 2 {
                rep.count("fault.split_fresh_worker_state", info.segs - 1);
                rep.sigs.push(info.sched);
            }
        }
    }
    rep.count("fault.stop_unseen_item", info.stop_unseen);
    if info.preemptions > 0 {
        rep.count("sched.preemptive_executions", 1);
        rep.count("fault.preemption_inside_item", info.preemptions);
    }
    if info.cancel_fired {
        rep.count("fault.cancel_fired", 1);
    }
}

////////////////////////////////////////////////////////////////////////////////
// C07: 3-D rendering vs brute-force heightmap

/// Mirrors how the renderer picks its root tile (documented behaviour:
/// tile sizes larger than the image are trimmed off the front of the list)
fn root_tile(tiles: &[usize], max_size: usize) -> usize {
    let i = tiles
        .iter()
        .position(|t| *t < max_size)
        .unwrap_or(tiles.len())
        .saturating_sub(1);
    tiles[i]
}

fn default_tiles_3d(backend: Backend) -> Vec<usize> {
    match backend {
        Backend::Jit => vec![64, 16, 8],
        _ => vec![128, 64, 32, 16, 8],
    }
}

pub fn run_c07(st: &Shared, tier: Tier) -> RunReport {
    let mut rep = RunReport::default();
    let work = gen_work(&mut st.borrow_mut().ch, Kind::D3, tier);
    let b = build(&work);
    rep.sample = work.describe();
    if std::env::var("VERIF_DEBUG").is_ok() {
        eprintln!("C07 workload: {}", rep.sample);
    }
    let (w, h, d) = (work.w as usize, work.h as usize, work.d as usize);

    let size = VoxelSize::new(work.w, work.h, work.d);
    let mat = work.m4 * size.screen_to_world();
    let tiles = work
        .tiles
        .clone()
        .unwrap_or_else(|| default_tiles_3d(work.backend));
    let root = root_tile(&tiles, w.max(h));
    // voxels just beyond the top of the grid, up to and including the closed
    // upper face of the topmost root tile
    let top = d.div_ceil(root) * root;
    let mut vars = b.var_map.clone();
    let reach = work.sg.dag.reachable(&[work.sg.root]);
    let mut value = |i: usize, j: usize, k: usize| -> f32 {
        let p = mat.transform_point(&Point3::new(i as f32, j as f32, k as f32));
        vars.insert(Var::X, p.x);
        vars.insert(Var::Y, p.y);
        vars.insert(Var::Z, p.z);
        if work.random_expr {
            let vals = eval_f32(&work.sg.dag, p.x, p.y, p.z, &[]);
            if !regular_point(&work.sg.dag, &reach, &vals) {
                return f32::NAN;
            }
        }
        b.ctx.eval(b.root, &vars).unwrap()
    };
    // per column: expected depth, deciding margin, excluded flag
    struct Col {
        depth: u32,
        margin: f32,
        excluded: bool,
        nan: bool,
    }
    let mut cols = Vec::with_capacity(w * h);
    let mut exact_nonneg = 0u64;
    for j in 0..h {
        for i in 0..w {
            let mut depth = 0u32;
            let mut margin = f32::INFINITY;
            let mut nan = false;
            let mut excluded = false;
            let exact = work.exact_grid.is_some();
            for k in d..=top {
                let v = value(i, j, k);
                if exact && (v.is_nan() || v == 0.0) {
                    // certainly not negative (see `Work::exact_grid`)
                    continue;
                }
                if v.is_nan() || v < tau(v) {
                    excluded = true;
                    break;
                }
            }
            if !excluded {
                for k in (0..d).rev() {
                    let v = value(i, j, k);
                    if exact && (v.is_nan() || v == 0.0) {
                        exact_nonneg += 1;
                        continue;
                    }
                    if v.is_nan() {
                        nan = true;
                        break;
                    }
                    margin = margin.min(v.abs() / tau(v));
                    if v < 0.0 {
                        depth = k as u32 + 1;
                        break;
                    }
                }
            }
            cols.push(Col {
                depth,
                margin,
                excluded,
                nan,
            });
        }
    }

    if work.exact_grid.is_some() {
        rep.count("op.exact_grid_workload", 1);
        rep.count("oracle.exact_zero_or_nan_voxels_counted_as_not_negative", exact_nonneg);
    }
    predecessor_call(st, &mut rep, &work);
    let nconf = 3;
    for c in 0..nconf {
        let pool = if c == 0 { None } else { Some(draw_pool(st)) };
        let out = exec(st, &b, &work, pool, CancelPlan::Never);
        let info = take_info(st);
        rep.evaluations += 1;
        rep.steps += info.items + info.polls;
        account_schedule(&mut rep, &info, pool, &work);
        let out = match out {
            Err(p) => {
                rep.violate("C07", "panic", format!("render panicked: {p}"));
                continue;
            }
            Ok(None) => {
                rep.violate(
                    "C07",
                    "none_without_cancel",
                    "render returned None although never cancelled",
                );
                continue;
            }
            Ok(Some(Out::D3(v))) => v,
            Ok(Some(_)) => unreachable!(),
        };
        if out.len() != cols.len() {
            rep.violate("C07", "size", format!("{} pixels", out.len()));
            continue;
        }
        st.borrow_mut().log_digest("c07_img", Out::D3(out.clone()).digest());
        for (idx, (px, col)) in out.iter().zip(&cols).enumerate() {
            let (i, j) = (idx % w, idx / w);
            if col.excluded || col.nan {
                rep.skipped_oracle += 1;
                continue;
            }
            if col.margin <= 1.0 {
                // some voxel at or above the hit is within rounding of zero
                rep.skipped_oracle += 1;
                continue;
            }
            let got = px[0];
            if got != col.depth {
                let clause = if got == work.d && col.depth + 1 == work.d {
                    "depth_top_minus_one_reported_as_top".to_string()
                } else {
                    "depth_mismatch".to_string()
                };
                rep.violate(
                    "C07",
                    clause,
                    format!(
                        "pixel ({i},{j}) depth {got}, brute force {} (grid depth {})",
                        col.depth, work.d
                    ),
                );
                break;
            }
            rep.checked_oracle += 1;
            let n = [
                f32::from_bits(px[1]),
                f32::from_bits(px[2]),
                f32::from_bits(px[3]),
            ];
            if got == 0 {
                continue;
            }
            if got == work.d {
                if n != [0.0, 0.0, 1.0] {
                    rep.violate(
                        "C07",
                        "saturated_normal",
                        format!("pixel ({i},{j}) saturated but normal {n:?}"),
                    );
                    break;
                }
                continue;
            }
            // gradient at the hit voxel (i, j, depth-1) w.r.t. voxel coords
            let k = (got - 1) as usize;
            if let Some(g) = dual_gradient(&work, &mat, i, j, k) {
                let scale =
                    g.iter().map(|v| v.abs()).fold(0.0f64, f64::max).max(1e-3);
                let bad = (0..3).any(|a| {
                    !((n[a] as f64 - g[a]).abs() <= 2e-3 * scale + 1e-4)
                });
                if bad {
                    rep.violate(
                        "C07",
                        "normal_mismatch",
                        format!(
                            "pixel ({i},{j}) depth {got} normal {n:?}, dual gradient {g:?}"
                        ),
                    );
                    break;
                }
                rep.count("oracle.normals_checked", 1);
            } else {
                rep.count("oracle.normals_skipped_tie", 1);
            }
        }
    }
    rep.finish(st)
}

/// f64 forward-mode gradient of shape(mat * (i,j,k)) with respect to (i,j,k);
/// `None` near non-differentiable loci or when an op is not modelled
fn dual_gradient(
    work: &Work,
    mat: &Matrix4<f32>,
    i: usize,
    j: usize,
    k: usize,
) -> Option<[f64; 3]> {
    if work.model.is_some() {
        return None;
    }
    let p = [i as f64, j as f64, k as f64];
    let mut rows = [Dual::<3>::c(0.0); 4];
    for (r, row) in rows.iter_mut().enumerate() {
        let mut v = mat[(r, 3)] as f64;
        let mut dv = [0.0; 3];
        for c in 0..3 {
            v += mat[(r, c)] as f64 * p[c];
            dv[c] = mat[(r, c)] as f64;
        }
        *row = Dual { v, d: dv };
    }
    let div = |a: Dual<3>, b: Dual<3>| {
        let mut out = Dual::<3>::c(a.v / b.v);
        for c in 0..3 {
            out.d[c] = (a.d[c] * b.v - a.v * b.d[c]) / (b.v * b.v);
        }
        out
    };
    let x = div(rows[0], rows[3]);
    let y = div(rows[1], rows[3]);
    let z = div(rows[2], rows[3]);
    let vars: Vec<Dual<3>> = work
        .sg
        .var_values
        .iter()
        .map(|v| Dual::c(*v as f64))
        .collect();
    let at = |s: f64| -> Option<[f64; 3]> {
        // the renderer computes the sample position in f32: shift every
        // coordinate by a few of its ulps
        let sh = |mut c: Dual<3>| {
            c.v += s * 8.0 * f32::EPSILON as f64 * c.v.abs().max(1.0);
            c
        };
        let r = eval_dual(&work.sg.dag, sh(x), sh(y), sh(z), &vars);
        if !r.supported || !(r.tie_margin > 1e-3) {
            return None;
        }
        let g = r.vals[work.sg.root];
        if !g.v.is_finite() || g.d.iter().any(|v| !v.is_finite()) {
            return None;
        }
        if g.d.iter().any(|v| v.abs() > 1e4) {
            // ill-conditioned (near a pole of the transform or of the field)
            return None;
        }
        Some(g.d)
    };
    let g = at(0.0)?;
    // the gradient must be insensitive to rounding of the sample position:
    // where a few ulps of the input move it by a noticeable part of the
    // tolerance the f32 pipeline cannot be held to the f64 value
    let scale = g.iter().map(|v| v.abs()).fold(0.0f64, f64::max).max(1e-3);
    for s in [-1.0, 1.0] {
        let h = at(s)?;
        if (0..3).any(|a| (h[a] - g[a]).abs() > 0.25 * (2e-3 * scale + 1e-4)) {
            return None;
        }
    }
    Some(g)
}

////////////////////////////////////////////////////////////////////////////////
// C09: schedules, pool sizes and cancellation are unobservable

/// The deterministic image effects of fidget-raster (`denoise_normals`,
/// `apply_shading` without SSAO, whose kernel is random by design) fan out over
/// image rows with rayon when a pool is supplied (`Image::apply_effect`).  The
/// fan-out is over a mutable slice, which is not behind the `SimVec` seam, so
/// the pools are real ones (1, 2 and 5 threads): every pixel is a pure function
/// of the source image, so on a tree where the property holds the result
/// cannot depend on the schedule, and any pool-dependent difference is
/// deterministic too (added after seeded change C09-ag).
fn effects_pool_independence(
    st: &Shared,
    rep: &mut RunReport,
    work: &Work,
    px: &[[u32; 4]],
) {
    use fidget_raster::effects;
    let size = VoxelSize::new(work.w, work.h, work.d);
    let mut img = voxel::Image::new(size);
    for (k, p) in px.iter().enumerate() {
        img[k] = voxel::GeometryPixel {
            depth: p[0],
            normal: [
                f32::from_bits(p[1]),
                f32::from_bits(p[2]),
                f32::from_bits(p[3]),
            ],
        };
    }
    let run = |threads: Option<&ThreadPool>| -> Result<(Vec<[u32; 4]>, Vec<[u8; 3]>), String> {
        rt::catch(|| {
            let d = effects::denoise_normals(&img, threads);
            let s = effects::apply_shading(&img, false, threads);
            (
                d.iter()
                    .map(|p| {
                        [
                            p.depth,
                            p.normal[0].to_bits(),
                            p.normal[1].to_bits(),
                            p.normal[2].to_bits(),
                        ]
                    })
                    .collect(),
                s.iter().copied().collect(),
            )
        })
    };
    let reference = run(None);
    rep.count("op.effects_with_and_without_pools", 1);
    for k in [1usize, 2, 5] {
        let pool = rayon::ThreadPoolBuilder::new()
            .num_threads(k)
            .build()
            .unwrap();
        let pool = ThreadPool::Custom(pool);
        let got = run(Some(&pool));
        rep.checked_oracle += 1;
        let same = match (&reference, &got) {
            (Ok(a), Ok(b)) => a == b,
            (Err(_), Err(_)) => true,
            _ => false,
        };
        if !same {
            let what = match (&reference, &got) {
                (Ok(a), Ok(b)) => format!(
                    "{} of {} denoised pixels and {} of {} shaded pixels differ",
                    a.0.iter().zip(&b.0).filter(|(x, y)| x != y).count(),
                    a.0.len(),
                    a.1.iter().zip(&b.1).filter(|(x, y)| x != y).count(),
                    a.1.len()
                ),
                (a, b) => format!("no pool: {:?}, pool: {:?}", a.as_ref().err(), b.as_ref().err()),
            };
            rep.violate(
                "C09",
                "effects_pool_differs_from_sequential",
                format!(
                    "denoise_normals / apply_shading of the {}x{} render on a real pool of {k}: {what}",
                    work.w, work.h
                ),
            );
            break;
        }
    }
    if let Ok((d, s)) = &reference {
        let h = d.iter().fold(s.len() as u64, |h, p| {
            crate::chooser::mix(h, p[0] as u64 ^ ((p[1] as u64) << 32))
        });
        st.borrow_mut().log("c09_effects", h, 0);
    }
}

pub fn run_c09(st: &Shared, tier: Tier) -> RunReport {
    let mut rep = RunReport::default();
    let kind_choice = st.borrow_mut().ch.choose("kind", 4);
    let kind = match kind_choice {
        0 => Kind::D2,
        1 => Kind::D3,
        2 => Kind::Mesh,
        _ => {
            // E5: one tape shared by several logical threads; one in six of
            // these is E6: two real threads, one of them frozen at a machine
            // instruction chosen by the simulator (ptrace)
            if st.borrow_mut().ch.odds("e6_step_sim", 1, 6) {
                crate::e6::run(st, tier, &mut rep);
            } else {
                crate::e5::run(st, tier, &mut rep);
            }
            return rep.finish(st);
        }
    };
    let work = gen_work(&mut st.borrow_mut().ch, kind, tier);
    let b = build(&work);
    rep.sample = work.describe();
    if std::env::var("VERIF_DEBUG").is_ok() {
        eprintln!("C09 workload: {}", rep.sample);
    }

    // (r) sequential reference
    let reference = match exec(st, &b, &work, None, CancelPlan::Never) {
        Ok(Some(o)) => o,
        Ok(None) => {
            rep.violate(
                "C09",
                "never_cancelled_none",
                "no-pool run returned None although never cancelled",
            );
            return rep.finish(st);
        }
        Err(p) => {
            rep.violate("C09", "panic_no_pool", p);
            return rep.finish(st);
        }
    };
    let ref_info = take_info(st);
    rep.evaluations += 1;
    rep.steps += ref_info.items + ref_info.polls;
    account_schedule(&mut rep, &ref_info, None, &work);
    st.borrow_mut().log_digest("c09_ref", reference.digest());

    // post-processing of the rendered 3-D image takes a thread pool too
    if let Out::D3(px) = &reference {
        if st.borrow_mut().ch.odds("effects_on_pools", 1, 3) {
            effects_pool_independence(st, &mut rep, &work, px);
        }
    }

    // the caller's previous call on this thread, after the reference was taken
    predecessor_call(st, &mut rep, &work);

    // (a) simulated pools, never cancelled
    let mut pool_info = ExecInfo::default();
    let nconf = if kind == Kind::Mesh { 2 } else { 3 };
    for _ in 0..nconf {
        let pool = Some(draw_pool(st));
        let out = exec(st, &b, &work, pool, CancelPlan::Never);
        let info = take_info(st);
        rep.evaluations += 1;
        rep.steps += info.items + info.polls;
        account_schedule(&mut rep, &info, pool, &work);
        match out {
            Err(p) => rep.violate("C09", "panic_pool", p),
            Ok(None) => rep.violate(
                "C09",
                "never_cancelled_none",
                format!("pool {pool:?} returned None although never cancelled"),
            ),
            Ok(Some(o)) => {
                if o != reference {
                    rep.violate(
                        "C09",
                        "pool_differs_from_sequential",
                        format!(
                            "pool {pool:?} segs {} result differs from no-pool result ({})",
                            info.segs,
                            diff_summary(&o, &reference)
                        ),
                    );
                }
            }
        }
        pool_info = info;
    }

    // (a') the REAL rayon scheduler with a pool of exactly one thread.  A
    // single worker thread makes the real scheduler deterministic, so this is
    // the one pool configuration that needs no stub; it also is the only
    // execution that goes through `ThreadPool::Custom` (rayon's `install`)
    // and through whatever rayon primitives the code uses around the
    // fan-out.  The result must equal the sequential one; a run that never
    // returns is caught by the liveness watchdog.
    {
        let pool1 = ThreadPool::Custom(
            rayon::ThreadPoolBuilder::new()
                .num_threads(1)
                .build()
                .expect("rayon pool"),
        );
        REAL_POOL.with(|p| *p.borrow_mut() = Some(pool1));
        // one time in three the same pool first serves an unrelated call:
        // whatever its worker thread keeps between calls is then dirty
        if st.borrow_mut().ch.odds("previous_call_on_this_real_pool", 1, 3) {
            let w2 = {
                let ch = &mut st.borrow_mut().ch;
                let kind = *ch.pick("previous_call_kind", &[Kind::D2, Kind::D3, Kind::Mesh]);
                let mut w2 = gen_work(ch, kind, Tier::Quick);
                w2.backend = work.backend;
                w2
            };
            let b2 = build(&w2);
            let _ = exec(st, &b2, &w2, Some(1), CancelPlan::Never);
            rep.count("fault.unrelated_call_on_this_real_pool_just_before", 1);
            let back = SPENT_POOL.with(|s| s.borrow_mut().take());
            REAL_POOL.with(|p| *p.borrow_mut() = back);
        }
        let out = exec(st, &b, &work, Some(1), CancelPlan::Never);
        SPENT_POOL.with(|s| s.borrow_mut().take());
        rep.evaluations += 1;
        rep.count("sched.real_rayon_single_thread_pool", 1);
        match out {
            Err(p) => rep.violate("C09", "panic_real_pool", p),
            Ok(None) => rep.violate(
                "C09",
                "never_cancelled_none",
                "real 1-thread pool returned None although never cancelled",
            ),
            Ok(Some(o)) => {
                st.borrow_mut().log_digest("c09_real1", o.digest());
                if o != reference {
                    rep.violate(
                        "C09",
                        "real_single_thread_pool_differs_from_sequential",
                        format!(
                            "real rayon pool of one thread: {}",
                            diff_summary(&o, &reference)
                        ),
                    );
                }
            }
        }
    }

    // (b) cancellation: no-pool and pool, drawn cancel instants
    for c in 0..3 {
        let pool = if c == 0 { None } else { Some(draw_pool(st)) };
        let base = if pool.is_some() { &pool_info } else { &ref_info };
        let plan = {
            let ch = &mut st.borrow_mut().ch;
            match ch.choose("cancel_kind", 4) {
                0 => CancelPlan::BeforeCall,
                1 => CancelPlan::BeforeItem(
                    ch.choose("cancel_item", base.items as u32 + 2) as u64,
                ),
                2 => {
                    // bias to the first and last polls
                    let n = base.polls as u32 + 2;
                    let j = match ch.choose("cancel_poll_bias", 4) {
                        0 => 0,
                        1 => n.saturating_sub(3),
                        _ => ch.choose("cancel_poll", n),
                    };
                    CancelPlan::BeforePoll(j as u64)
                }
                _ => CancelPlan::Never,
            }
        };
        cancel_exec(st, &mut rep, &b, &work, pool, plan, &reference);
    }

    // (c) enumerated cancel placements: for small workloads every poll
    // position of the sequential path and of one pool size is tried, so the
    // "cancel during" dimension is covered exhaustively for that workload
    let enumerate = {
        let ch = &mut st.borrow_mut().ch;
        let share = if tier == Tier::Thorough { 4 } else { 10 };
        ch.choose("cancel_enumerate", share) == 0
    };
    if enumerate && ref_info.polls <= 40 && rep.violations.is_empty() {
        rep.count("sched.cancel_enumerated_workloads", 1);
        for j in 0..=ref_info.polls {
            cancel_exec(
                st,
                &mut rep,
                &b,
                &work,
                None,
                CancelPlan::BeforePoll(j),
                &reference,
            );
            rep.count("fault.cancel_enumerated_placements", 1);
        }
        let pool = Some(draw_pool(st));
        for j in 0..=pool_info.polls.min(40) {
            cancel_exec(
                st,
                &mut rep,
                &b,
                &work,
                pool,
                CancelPlan::BeforePoll(j),
                &reference,
            );
            rep.count("fault.cancel_enumerated_placements", 1);
        }
        for j in 0..=pool_info.items.min(40) {
            cancel_exec(
                st,
                &mut rep,
                &b,
                &work,
                pool,
                CancelPlan::BeforeItem(j),
                &reference,
            );
            rep.count("fault.cancel_enumerated_placements", 1);
        }
    }
    rep.finish(st)
}

/// One execution with a cancel plan, checked against the four cancel clauses
fn cancel_exec(
    st: &Shared,
    rep: &mut RunReport,
    b: &Built,
    work: &Work,
    pool: Option<usize>,
    plan: CancelPlan,
    reference: &Out,
) {
        let out = exec(st, b, work, pool, plan);
        let info = take_info(st);
        rep.evaluations += 1;
        rep.steps += info.items + info.polls;
        account_schedule(rep, &info, pool, work);
        if info.cancel_fired {
            rep.sigs.push(mix(info.sched, 0xCA));
        }
        match plan {
            CancelPlan::BeforeCall => rep.count("fault.cancel_before_call", 1),
            CancelPlan::BeforeItem(_) if info.cancel_fired => {
                rep.count("fault.cancel_before_item", 1)
            }
            CancelPlan::BeforePoll(_) if info.cancel_fired => {
                rep.count("fault.cancel_before_poll", 1)
            }
            _ => rep.count("fault.cancel_never_reached", 1),
        }
        match out {
            Err(p) => rep.violate("C09", "panic_cancel", p),
            Ok(None) => {
                if !info.cancel_fired {
                    rep.violate(
                        "C09",
                        "never_cancelled_none",
                        format!("{plan:?} never fired but result is None"),
                    );
                }
            }
            Ok(Some(o)) => {
                if plan == CancelPlan::BeforeCall {
                    rep.violate(
                        "C09",
                        "precancelled_some",
                        format!(
                            "token set before the call, pool {pool:?}: a result was returned"
                        ),
                    );
                } else if info.polls_after_cancel > 0 {
                    rep.violate(
                        "C09",
                        "polled_after_cancel_some",
                        format!(
                            "{plan:?} pool {pool:?}: {} polls saw the cancelled token, result returned anyway",
                            info.polls_after_cancel
                        ),
                    );
                }
                if o != *reference {
                    rep.violate(
                        "C09",
                        "partial_result",
                        format!(
                            "{plan:?} pool {pool:?}: returned result differs from the complete one ({})",
                            diff_summary(&o, reference)
                        ),
                    );
                }
            }
        }
}

fn diff_summary(a: &Out, b: &Out) -> String {
    match (a, b) {
        (Out::D2(x), Out::D2(y)) => {
            let n = x.iter().zip(y).filter(|(p, q)| p != q).count();
            format!("{n} of {} pixels differ, lens {} {}", x.len(), x.len(), y.len())
        }
        (Out::D3(x), Out::D3(y)) => {
            let n = x.iter().zip(y).filter(|(p, q)| p != q).count();
            format!("{n} of {} pixels differ", x.len())
        }
        (Out::Mesh(x), Out::Mesh(y)) => {
            format!("{} vs {} triangles", x.len(), y.len())
        }
        _ => "kind mismatch".to_string(),
    }
}
