//! Registry of checks, and self-tests of the simulator itself
use crate::common::*;
use crate::driver::{self, CheckSpec};
use crate::e1;
use crate::e2;
use crate::e3;

const REAL: &[&str] = &[
    "fidget-core (context, compiler, VM evaluators, shape wrappers, render handle)",
    "fidget-jit (assembler and the generated x86_64 machine code, mmap management)",
    "fidget-raster (tile recursion, workers, image assembly)",
    "fidget-mesh (octree builder, merge, dual contouring)",
    "fidget-solver",
    "nalgebra, libm",
];
const STUB: &[&str] = &[
    "rayon's scheduler (replaced by the seeded fork-join executor in fidget_core::verif; the library's init and per-item closures run unmodified)",
    "OS randomness (libc getrandom replaced by a seeded stream: HashMap keys, Var::new ids)",
];
const ABSENT: &[&str] = &[
    "network loss/duplication/reordering/partition",
    "disk error/torn write/full disk",
    "clock skew/jump/timer",
    "crash-restart with durable state",
    "allocation failure",
];

pub fn all() -> Vec<CheckSpec> {
    vec![
        CheckSpec {
            prop: "C06",
            engine: "E1-par-sim",
            runs_quick: 50000,
            runs_thorough: 4000000,
            run: e1::run_c06,
            rule: "one run = one drawn 2-D workload (CSG shape, image size, tile list, transform, backend, pixel-perfect flag) rendered by the real pixel::render under the no-pool path and two simulated pools (drawn size, split tree, item interleaving); every pixel compared with Context::eval. distinct_nontrivial = number of distinct schedule signatures (hash of pool size, split tree, item execution order) among pool executions with >=2 segments, i.e. where some tile was rendered by a worker whose evaluator/storage/cache state came from a different predecessor than in the sequential order",
            assumptions: &[
                "item-granular interleaving is sufficient because tile tasks share only immutable data (DESIGN 3.2 S1)",
                "pixels whose reference value is NaN or within 1e-4*max(1,|v|) of zero are outside the claim and skipped (counted)",
                "shapes are drawn from the CSG generator, not all programs",
            ],
            real_components: REAL,
            stub_components: STUB,
            absent_faults: ABSENT,
        },
        CheckSpec {
            prop: "C07",
            engine: "E1-par-sim",
            runs_quick: 40000,
            runs_thorough: 4000000,
            run: e1::run_c07,
            rule: "one run = one drawn 3-D workload (CSG solid, grid w*h*d, tile list, 4x4 transform, backend) rendered by the real voxel::render under the no-pool path and two simulated pools; every column compared with a brute-force heightmap from Context::eval and surface normals with an f64 dual gradient. distinct_nontrivial = distinct schedule signatures among pool executions with >=2 segments",
            assumptions: &[
                "columns negative (or within rounding of zero) just beyond the top of the grid, up to the closed top face of the topmost root tile, are outside the claim (counted as skipped)",
                "columns where a deciding voxel is within 1e-4*max(1,|v|) of zero are skipped (counted)",
                "normals are compared only where every min/max/abs decision has a margin > 1e-3 (away from non-differentiable loci)",
            ],
            real_components: REAL,
            stub_components: STUB,
            absent_faults: ABSENT,
        },
        CheckSpec {
            prop: "C09",
            engine: "E1-par-sim",
            runs_quick: 20000,
            runs_thorough: 3000000,
            run: e1::run_c09,
            rule: "one run = either (3 in 4) one drawn workload (2-D render, 3-D render or octree mesh) executed once sequentially, 2-3 times on simulated pools (size 1..=16, drawn split tree, item interleaving, stop-flag visibility) and 3 times with a drawn cancel instant (before the call, before executor item j, before poll j, never; pool and no-pool). Results must equal the sequential one bit for bit; cancel clauses as in DESIGN 5/C09; one pool execution in four is preemptive (segments on baton-passing OS threads, hand-over at sched points inside the interpreter loops and before native calls); or (1 in 4) E5: 2-4 logical threads share the tapes of one function and run drawn operation lists (point/interval/float-slice incl. sub-SIMD lengths/grad-slice/simplify+recycle) on the preemptive executor, each compared with its solo results (one in six of these runs is E6 instead: two real threads of a ptrace-traced child, thread A frozen at a drawn synchronising machine instruction while thread B runs its whole list). distinct_nontrivial = distinct schedule signatures (pool size, split tree, execution order, stop visibility, cancel position) among executions with >=2 segments or a fired cancel",
            assumptions: &[
                "item-granular interleaving plus exact cancel placement covers every distinguishable schedule because tasks share only immutable data and read the cancel flag only at hook points (DESIGN 3.2 S1/S2)",
                "preemption inside one native JIT call: only by E6 (one preemption of thread A per execution, at or near a synchronising instruction)",
                "ThreadPool::Custom (rayon install) is not on the simulated path",
            ],
            real_components: REAL,
            stub_components: STUB,
            absent_faults: ABSENT,
        },
        CheckSpec {
            prop: "C10",
            engine: "E2-reuse-history",
            runs_quick: 160000,
            runs_thorough: 4000000,
            run: e2::run_c10,
            rule: "one run = one seeded history (10-60 operations, 1-3 logical workers, 2-5 random multi-output functions over all opcodes, one backend of VM<3>/VM<8>/VM<255>/JIT) of {build, point/interval/float-slice/grad-slice evaluation with the worker's kept evaluator and a tape built into fresh or recycled storage, simplify with kept workspace and recycled function storage, cross-budget simplify, recycle, clone handle, hand storage to another worker, re-evaluate a tape held across other operations, RenderHandle episode}; after every operation the result is compared with the same call on fresh objects. distinct_nontrivial = number of distinct history signatures (hash of the whole operation/provenance/result log) among runs in which at least one reuse fault kind fired",
            assumptions: &[
                "the fresh-object twin is the reference model: a defect that is independent of history is out of scope here (it belongs to C01/C02/C20)",
                "functions are drawn by the random DAG generator, not all programs",
                "logical workers run on one OS thread: cross-thread sharing is C09",
            ],
            real_components: REAL,
            stub_components: STUB,
            absent_faults: ABSENT,
        },
        CheckSpec {
            prop: "C04",
            engine: "E2-reuse-history",
            runs_quick: 120000,
            runs_thorough: 3000000,
            run: e2::run_c04,
            rule: "same history engine as C10 weighted towards simplification chains (depth <= 6): traces come from VM/JIT point and interval evaluators run with reused evaluator objects, children are produced with reused workspaces, recycled storage, other register budgets and through RenderHandle's trace-keyed cache; after every simplification parent and child are compared bit for bit at the traced point or at 6 points of the traced box under point, float-slice and grad-slice evaluation with fresh evaluators. distinct_nontrivial = distinct history signatures among runs with at least one reuse fault kind",
            assumptions: &[
                "the for-all-programs part is sampled by the random DAG generator; the simulator's contribution is the history",
                "interval evaluation of degenerate sub-boxes is not compared (the statement speaks about points of the box)",
            ],
            real_components: REAL,
            stub_components: STUB,
            absent_faults: ABSENT,
        },
        CheckSpec {
            prop: "C14",
            engine: "E3-ident-sim",
            runs_quick: 120000,
            runs_thorough: 3500000,
            run: e3::run_c14,
            rule: "one run = one fresh OS thread whose HashMap keys and Var::new() ids come from the seeded getrandom seam; a drawn expression over a subset of {X,Y,Z} and 0-40 variables met in a drawn traversal order, values supplied in a drawn order with extras and (separately) one missing, optional affine/projective transform, backend VM/JIT/VM<3>; point (all entry points), interval, float-slice (fixed values and per-sample arrays), grad-slice and post-simplification evaluation compared with Context::eval on an explicit HashMap<Var,f32>. distinct_nontrivial = number of distinct variable-to-slot assignments (hash of the (variable, slot) pairs the compiler produced) among runs with >= 2 variables",
            assumptions: &[
                "values agree to 1e-4 relative (NaN matches NaN): the property is about binding, variable values are separated by 3.7 so a slot mix-up cannot hide in the tolerance",
                "derivative lanes are compared with an f64 dual evaluation only where every min/max/abs decision has margin > 1e-3",
                "interval enclosure is checked with 1e-3 relative slack (C03 allows a few ulps)",
            ],
            real_components: REAL,
            stub_components: STUB,
            absent_faults: ABSENT,
        },
        CheckSpec {
            prop: "C19",
            engine: "E3-ident-sim",
            runs_quick: 40000,
            runs_thorough: 4000000,
            run: e3::run_c19,
            rule: "one run = one fresh OS thread with seeded HashMap keys / Var ids (so the iteration order of the caller's parameter map, which is the Jacobian column packing, is drawn per run); a consistent, diagonally dominant sparse linear system with 1-40 parameters, a drawn subset fixed, drawn equation/term order, solved by the real fidget_solver::solve with VM and JIT functions; key set, residual (harness f64), fixed-as-constant (a fixed value is moved and the system re-solved), fixed point for exactly satisfied systems, backend agreement. distinct_nontrivial = distinct (column order, free count) signatures among runs with >= 2 free parameters",
            assumptions: &[
                "well-conditioned by construction: free diagonal in [1,2], at most 3 off-diagonal entries of magnitude <= 0.2 per row, plus up to 3 consistent extra rows",
                "residual bound 1e-3*(1+max|b|); the unchanged solver reaches ~5e-7",
                "at least one free parameter (all-fixed input panics in the solver and is outside the property's 1..=40 unknowns)",
            ],
            real_components: REAL,
            stub_components: STUB,
            absent_faults: ABSENT,
        },
    ]
}

/// Self-tests of the simulator (exit 2 on failure: harness error, never a
/// verdict about fidget)
pub fn selftest(specs: &[CheckSpec], args: &[String]) -> i32 {
    match args.first().map(|s| s.as_str()) {
        Some("determinism") => {
            if !crate::x86mem::selftest() {
                eprintln!("x86 memory-operand decoder self-test failed");
                return 2;
            }
            let n: u64 =
                args.get(1).and_then(|s| s.parse().ok()).unwrap_or(200);
            let seed = driver::verif_seed();
            let mut bad = 0;
            for spec in specs {
                let mut h = 0u64;
                for i in 0..n {
                    let rs = driver::run_seed(spec, seed, i);
                    let a = driver::one_run(spec, Tier::Quick, rs, None);
                    let b = driver::one_run(spec, Tier::Quick, rs, None);
                    match (a, b) {
                        (Ok(a), Ok(b)) => {
                            if a.log_hash != b.log_hash || a.trace != b.trace {
                                eprintln!(
                                    "NONDETERMINISM {} run {i}: {:016x} vs {:016x}",
                                    spec.prop, a.log_hash, b.log_hash
                                );
                                bad += 1;
                            }
                            // replaying the recorded trace must also agree
                            let c = driver::one_run(
                                spec,
                                Tier::Quick,
                                rs,
                                Some(a.trace.clone()),
                            );
                            match c {
                                Ok(c) if c.log_hash == a.log_hash => (),
                                _ => {
                                    eprintln!(
                                        "REPLAY-MISMATCH {} run {i}",
                                        spec.prop
                                    );
                                    bad += 1;
                                }
                            }
                            h ^= crate::chooser::mix(i, a.log_hash);
                        }
                        (a, b) => {
                            eprintln!(
                                "run error {} {i}: {:?} {:?}",
                                spec.prop,
                                a.err(),
                                b.err()
                            );
                            bad += 1;
                        }
                    }
                }
                println!("determinism {} runs={n} hash={h:016x}", spec.prop);
            }
            if bad > 0 { 2 } else { 0 }
        }
        Some("executor") => {
            let n: u64 =
                args.get(1).and_then(|s| s.parse().ok()).unwrap_or(200);
            e1::selftest_executor(n)
        }
        _ => {
            eprintln!("selftest determinism|executor [runs]");
            2
        }
    }
}
