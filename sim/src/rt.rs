//! Simulation runtime: the installed `Sim`, the getrandom seam, fresh-thread
//! execution of runs and panic capture.
use crate::chooser::{Chooser, hash_str, mix};
use fidget_core::render::CancelToken;
use std::cell::{Cell, RefCell};
use std::collections::BTreeMap;
use std::rc::Rc;

////////////////////////////////////////////////////////////////////////////////
// S3: process randomness.  std's HashMap keys and rand's ThreadRng both reach
// the libc symbol `getrandom`; defining it in the executable makes them a
// function of a per-thread seed.

thread_local! {
    static RND: Cell<(u64, u64)> = const { Cell::new((0x5EED_0000_0000_0001, 0)) };
}

pub fn set_random_seed(seed: u64) {
    RND.with(|r| r.set((seed, 0)));
}

pub fn random_bytes_drawn() -> u64 {
    RND.with(|r| r.get().1)
}

/// # Safety
/// `buf` must be valid for `len` bytes (libc contract)
#[unsafe(no_mangle)]
pub unsafe extern "C" fn getrandom(
    buf: *mut u8,
    len: usize,
    _flags: u32,
) -> isize {
    RND.with(|r| {
        let (seed, mut ctr) = r.get();
        for i in 0..len {
            let word = mix(seed, ctr / 8);
            let byte = (word >> ((ctr % 8) * 8)) as u8;
            unsafe { *buf.add(i) = byte };
            ctr += 1;
        }
        r.set((seed, ctr));
    });
    len as isize
}

////////////////////////////////////////////////////////////////////////////////

#[derive(Copy, Clone, Debug, PartialEq, Eq)]
pub enum CancelPlan {
    Never,
    BeforeCall,
    /// Fire just before the executor starts its j-th item (0-based)
    BeforeItem(u64),
    /// Fire just before the j-th poll of the token (0-based)
    BeforePoll(u64),
}

pub struct RunState {
    pub ch: Chooser,
    pub seq: u64,
    pub log_hash: u64,
    pub sched_hash: u64,
    pub events: Vec<(&'static str, u64, u64)>,
    pub counters: BTreeMap<&'static str, u64>,

    pub pool: Option<usize>,
    pub page: Option<usize>,
    /// run the next pool execution with segment threads and preemption
    pub preempt: bool,
    pub preemptions: u64,
    /// every work item becomes its own segment (one logical thread each)
    pub force_split: bool,
    /// preempt at (almost) every sched point instead of every 2^k-th
    pub fine_preempt: bool,

    pub token: Option<CancelToken>,
    pub cancel_plan: CancelPlan,
    pub polls: u64,
    pub items: u64,
    pub cancel_fired: bool,
    pub polls_after_cancel: u64,
    pub segs: u64,
    pub stop_unseen_items: u64,
    pub stopped: bool,
}

const MAX_EVENTS: usize = 2000;

impl RunState {
    pub fn new(ch: Chooser) -> Self {
        RunState {
            ch,
            seq: 0,
            log_hash: 0x1234_5678_9abc_def0,
            sched_hash: 0,
            events: vec![],
            counters: BTreeMap::new(),
            pool: None,
            page: None,
            preempt: false,
            preemptions: 0,
            force_split: false,
            fine_preempt: false,
            token: None,
            cancel_plan: CancelPlan::Never,
            polls: 0,
            items: 0,
            cancel_fired: false,
            polls_after_cancel: 0,
            segs: 0,
            stop_unseen_items: 0,
            stopped: false,
        }
    }

    pub fn count(&mut self, name: &'static str) {
        *self.counters.entry(name).or_insert(0) += 1;
    }
    pub fn count_n(&mut self, name: &'static str, n: u64) {
        if n > 0 {
            *self.counters.entry(name).or_insert(0) += n;
        }
    }

    /// Records an event in the log hash (never draws, never reads a clock)
    pub fn log(&mut self, site: &'static str, a: u64, b: u64) {
        self.seq += 1;
        let h = mix(hash_str(site), mix(a, b));
        self.log_hash = mix(self.log_hash, h ^ self.seq);
        if self.events.len() < MAX_EVENTS {
            self.events.push((site, a, b));
        }
    }

    /// Folds an arbitrary result digest into the log (used by oracles)
    pub fn log_digest(&mut self, site: &'static str, d: u64) {
        self.log(site, d, 0);
    }

    /// Prepares the per-execution schedule bookkeeping
    pub fn begin_exec(
        &mut self,
        pool: Option<usize>,
        token: Option<CancelToken>,
        plan: CancelPlan,
    ) {
        self.pool = pool;
        self.token = token;
        self.cancel_plan = plan;
        self.polls = 0;
        self.items = 0;
        self.cancel_fired = false;
        self.polls_after_cancel = 0;
        self.segs = 0;
        self.stop_unseen_items = 0;
        self.stopped = false;
        self.preemptions = 0;
        self.sched_hash = mix(
            0xabcdef,
            pool.map(|p| p as u64 + 1).unwrap_or(0),
        );
        if plan == CancelPlan::BeforeCall {
            self.fire_cancel();
        }
    }

    fn fire_cancel(&mut self) {
        if !self.cancel_fired {
            if let Some(t) = &self.token {
                t.cancel();
            }
            self.cancel_fired = true;
            let (p, i) = (self.polls, self.items);
            self.log("cancel_fired", p, i);
            self.sched_hash = mix(self.sched_hash, mix(0xCA7CE1, mix(p, i)));
        }
    }

    fn on_event(&mut self, site: &'static str, a: u64, b: u64) {
        match site {
            "poll" => {
                if self.cancel_plan == CancelPlan::BeforePoll(self.polls) {
                    self.fire_cancel();
                }
                self.polls += 1;
                if self.cancel_fired {
                    self.polls_after_cancel += 1;
                }
                self.log(site, a, b);
            }
            "item_start" => {
                if self.cancel_plan == CancelPlan::BeforeItem(self.items) {
                    self.fire_cancel();
                }
                self.items += 1;
                if self.stopped {
                    self.stop_unseen_items += 1;
                }
                self.sched_hash = mix(self.sched_hash, mix(a, b));
                self.log(site, a, b);
            }
            "item_end" => {
                if b != 0 {
                    self.stopped = true;
                }
                self.log(site, a, b);
            }
            "seg_init" => {
                self.segs += 1;
                self.sched_hash = mix(self.sched_hash, mix(0x5E6, mix(a, b)));
                self.log(site, a, b);
            }
            "stop_seen" => {
                self.sched_hash = mix(self.sched_hash, mix(0x570, a));
                self.log(site, a, b);
            }
            "exec_begin" | "exec_end" => self.log(site, a, b),
            "preempt" => {
                self.preemptions += 1;
                self.sched_hash = mix(self.sched_hash, mix(0x9EE, mix(a, self.seq)));
                self.log(site, a, b);
            }
            _ => {
                // probes
                self.count(site);
                self.log(site, a, b);
            }
        }
    }
}

pub type Shared = Rc<RefCell<RunState>>;

struct SimHandle(Shared);

impl fidget_core::verif::Sim for SimHandle {
    fn choose(&mut self, site: &'static str, n: u32) -> u32 {
        let mut s = self.0.borrow_mut();
        if s.force_split && site == "split" {
            return 1;
        }
        if s.fine_preempt && site == "preempt_log2" {
            // countdown 1 + 2^v + jitter with v = 0: yield within 2-8 points
            return s.ch.choose("preempt_fine", 2);
        }
        s.ch.choose(site, n)
    }
    fn event(&mut self, site: &'static str, a: u64, b: u64) {
        self.0.borrow_mut().on_event(site, a, b);
    }
    fn thread_count(&self) -> Option<usize> {
        self.0.borrow().pool
    }
    fn page_size(&self) -> Option<usize> {
        self.0.borrow().page
    }
    fn preemptive(&self) -> bool {
        self.0.borrow().preempt
    }
}

pub fn install(st: &Shared) {
    fidget_core::verif::install(Box::new(SimHandle(st.clone())));
}

pub fn uninstall() {
    fidget_core::verif::uninstall();
}

////////////////////////////////////////////////////////////////////////////////
// Panic capture

// Process-wide (each worker process runs one simulation at a time, and the
// preemptive executor's segment threads must be covered too)
static QUIET: std::sync::atomic::AtomicUsize =
    std::sync::atomic::AtomicUsize::new(0);
static LAST_PANIC: std::sync::Mutex<Option<String>> =
    std::sync::Mutex::new(None);

pub fn init_panic_hook() {
    let default = std::panic::take_hook();
    std::panic::set_hook(Box::new(move |info| {
        let msg = if let Some(s) = info.payload().downcast_ref::<&str>() {
            s.to_string()
        } else if let Some(s) = info.payload().downcast_ref::<String>() {
            s.clone()
        } else {
            "<non-string panic>".to_string()
        };
        let loc = info
            .location()
            .map(|l| format!("{}:{}", l.file(), l.line()))
            .unwrap_or_default();
        let full = format!("{msg} @ {loc}");
        if QUIET.load(std::sync::atomic::Ordering::SeqCst) > 0 {
            // keep the first (innermost) panic: re-raised panics of the
            // executor carry less information
            let mut p = LAST_PANIC.lock().unwrap_or_else(|e| e.into_inner());
            if p.is_none() {
                *p = Some(full);
            }
        } else {
            default(info);
        }
    }));
}

/// Runs `f`, converting a panic into `Err(message @ location)`
pub fn catch<R>(f: impl FnOnce() -> R) -> Result<R, String> {
    QUIET.fetch_add(1, std::sync::atomic::Ordering::SeqCst);
    if let Ok(mut p) = LAST_PANIC.lock() {
        *p = None;
    }
    let r = std::panic::catch_unwind(std::panic::AssertUnwindSafe(f));
    QUIET.fetch_sub(1, std::sync::atomic::Ordering::SeqCst);
    r.map_err(|_| {
        LAST_PANIC
            .lock()
            .unwrap_or_else(|e| e.into_inner())
            .take()
            .unwrap_or_else(|| "<panic>".to_string())
    })
}

/// Runs `f` on a fresh OS thread whose randomness is keyed by `rseed`
///
/// std caches `RandomState` keys and rand caches `ThreadRng` per thread, so a
/// fresh thread is what makes hash iteration order and `Var::new()` ids a
/// function of the run seed.
pub fn on_fresh_thread<R: Send + 'static>(
    rseed: u64,
    f: impl FnOnce() -> R + Send + 'static,
) -> Result<R, String> {
    match on_fresh_thread_watchdog(rseed, None, f) {
        Ok(Some(r)) => Ok(r),
        Ok(None) => unreachable!(),
        Err(e) => Err(e),
    }
}

/// Like [`on_fresh_thread`], with a liveness watchdog: `Ok(None)` means the
/// run produced no result within `limit` (the stuck thread is abandoned; the
/// process is expected to exit soon afterwards).  The limit is orders of
/// magnitude above the cost of a run, so it does not make outcomes depend on
/// timing on a tree where runs terminate.
pub fn on_fresh_thread_watchdog<R: Send + 'static>(
    rseed: u64,
    limit: Option<std::time::Duration>,
    f: impl FnOnce() -> R + Send + 'static,
) -> Result<Option<R>, String> {
    let (tx, rx) = std::sync::mpsc::channel();
    let h = std::thread::Builder::new()
        .stack_size(64 << 20)
        .spawn(move || {
            set_random_seed(rseed);
            let r = catch(f);
            let _ = tx.send(r);
        })
        .expect("spawn");
    let r = match limit {
        None => rx.recv().map_err(|_| ()),
        Some(d) => match rx.recv_timeout(d) {
            Ok(r) => Ok(r),
            Err(std::sync::mpsc::RecvTimeoutError::Timeout) => return Ok(None),
            Err(_) => Err(()),
        },
    };
    let _ = h.join();
    match r {
        Ok(Ok(v)) => Ok(Some(v)),
        Ok(Err(p)) => Err(p),
        Err(()) => Err("<thread died>".to_string()),
    }
}
