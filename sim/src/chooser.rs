//! The chooser: one integer decides everything.
//!
//! Every decision of a simulated run (workload, schedule, faults) is one call
//! to `choose(site, n)`.  In search mode values come from a PRNG derived from
//! (VERIF_SEED, engine, run index); in replay mode they come from a recorded
//! trace.  Value 0 is always the "simplest" alternative.

#[derive(Clone)]
pub struct Rng(u64);

impl Rng {
    pub fn new(seed: u64) -> Self {
        Rng(seed)
    }
    /// SplitMix64
    pub fn next(&mut self) -> u64 {
        self.0 = self.0.wrapping_add(0x9E3779B97F4A7C15);
        let mut z = self.0;
        z = (z ^ (z >> 30)).wrapping_mul(0xBF58476D1CE4E5B9);
        z = (z ^ (z >> 27)).wrapping_mul(0x94D049BB133111EB);
        z ^ (z >> 31)
    }
}

pub fn mix(a: u64, b: u64) -> u64 {
    let mut r = Rng(a ^ b.wrapping_mul(0xD6E8FEB86659FD93));
    r.next();
    r.next()
}

pub fn hash_str(s: &str) -> u64 {
    let mut h = 0xcbf29ce484222325u64;
    for b in s.bytes() {
        h ^= b as u64;
        h = h.wrapping_mul(0x100000001b3);
    }
    h
}

enum Mode {
    Search(Rng),
    Replay(Vec<u32>, usize),
}

pub struct Chooser {
    mode: Mode,
    pub trace: Vec<(&'static str, u32, u32)>,
    /// Structure of the trace, for the minimiser: each span is one element
    /// of a drawn-length list, `(start, end, index of the length choice)`
    pub spans: Vec<(usize, usize, usize)>,
    open: Vec<usize>,
}

impl Chooser {
    pub fn search(seed: u64) -> Self {
        Chooser {
            mode: Mode::Search(Rng::new(seed)),
            trace: vec![],
            spans: vec![],
            open: vec![],
        }
    }
    pub fn replay(values: Vec<u32>) -> Self {
        Chooser {
            mode: Mode::Replay(values, 0),
            trace: vec![],
            spans: vec![],
            open: vec![],
        }
    }
    /// Uniform value in `0..n`
    pub fn choose(&mut self, site: &'static str, n: u32) -> u32 {
        if n <= 1 {
            return 0;
        }
        let v = match &mut self.mode {
            Mode::Search(r) => (r.next() % n as u64) as u32,
            Mode::Replay(vals, pos) => {
                let v = vals.get(*pos).copied().unwrap_or(0) % n;
                *pos += 1;
                v
            }
        };
        self.trace.push((site, n, v));
        v
    }
    /// Position in the trace of the next recorded choice
    pub fn mark(&self) -> usize {
        self.trace.len()
    }
    /// Starts one element of a list whose length was drawn at `count_at`
    pub fn span_begin(&mut self) {
        self.open.push(self.trace.len());
    }
    pub fn span_end(&mut self, count_at: usize) {
        if let Some(start) = self.open.pop() {
            let end = self.trace.len();
            if end > start {
                self.spans.push((start, end, count_at));
            }
        }
    }
    pub fn values(&self) -> Vec<u32> {
        self.trace.iter().map(|t| t.2).collect()
    }
    /// Inclusive integer range
    pub fn range(&mut self, site: &'static str, lo: i64, hi: i64) -> i64 {
        debug_assert!(hi >= lo);
        lo + self.choose(site, (hi - lo + 1) as u32) as i64
    }
    pub fn flag(&mut self, site: &'static str) -> bool {
        self.choose(site, 2) == 1
    }
    /// True with probability num/den
    pub fn odds(&mut self, site: &'static str, num: u32, den: u32) -> bool {
        self.choose(site, den) < num
    }
    /// A float on a grid of `steps` points in [lo, hi]; value 0 maps to `lo`
    pub fn float(
        &mut self,
        site: &'static str,
        lo: f32,
        hi: f32,
        steps: u32,
    ) -> f32 {
        let k = self.choose(site, steps + 1);
        lo + (hi - lo) * (k as f32 / steps as f32)
    }
    /// A float on a grid centred on zero: value 0 maps to 0.0
    pub fn float_sym(&mut self, site: &'static str, mag: f32, steps: u32) -> f32 {
        let k = self.choose(site, 2 * steps + 1);
        if k == 0 {
            return 0.0;
        }
        // 0 -> 0, 1 -> +1/steps, 2 -> -1/steps, ...
        let m = k.div_ceil(2) as f32 / steps as f32 * mag;
        if k % 2 == 1 { m } else { -m }
    }
    pub fn pick<'a, T>(&mut self, site: &'static str, items: &'a [T]) -> &'a T {
        &items[self.choose(site, items.len() as u32) as usize]
    }
}
