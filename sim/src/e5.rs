//! E5 shared-tape simulation (C09: "one tape evaluated concurrently from many
//! threads gives each thread the results it would get alone").
//!
//! K logical threads share the tapes of one function (clones of the same
//! `Arc`'d handles).  Each has its own evaluators and its own drawn list of
//! operations.  The lists are first executed alone (solo pass), then all
//! together on the preemptive executor: every logical thread is a real OS
//! thread, exactly one runs at a time, and the simulator hands the baton over
//! at sched points (every interpreter op, before every native JIT call, item
//! boundaries).  Each thread's results must equal its solo results.
use crate::chooser::{Chooser, mix};
use crate::common::*;
use crate::e2::{Res, ev_float, ev_grad, ev_interval, ev_point};
use crate::gen_::{FuncGen, gen_func};
use crate::rt::{self, CancelPlan, Shared};
use fidget_core::{
    Context,
    context::Node,
    eval::{BulkEvaluator, Function, MathFunction, Tape, TracingEvaluator},
    types::{Grad, Interval},
    var::Var,
    verif::SimVec,
    vm::{GenericVmFunction, VmFunction},
};
use fidget_jit::JitFunction;

#[derive(Clone, Debug)]
pub enum Op {
    Point(Vec<f32>),
    Interval(Vec<(f32, f32)>),
    Float(Vec<Vec<f32>>),
    Grad(Vec<Vec<f32>>),
    /// simplify with the trace of the given box, evaluate the child there
    Simplify(Vec<(f32, f32)>),
}

const VALS: [f32; 9] = [0.0, 1.0, -1.0, 0.5, -0.5, 2.0, -2.0, 0.25, 1.5];

fn val(ch: &mut Chooser) -> f32 {
    if ch.odds("e5_special", 1, 3) {
        *ch.pick("e5_val_s", &VALS)
    } else {
        ch.float_sym("e5_val", 3.0, 40)
    }
}

pub fn gen_ops(ch: &mut Chooser, nvars: usize) -> Vec<Op> {
    let n_at = ch.mark();
    let n = 1 + ch.choose("e5_nops", 6) as usize;
    (0..n)
        .map(|_| {
            ch.span_begin();
            let bx = |ch: &mut Chooser| -> Vec<(f32, f32)> {
                (0..nvars)
                    .map(|_| {
                        let a = val(ch);
                        let w = *ch.pick("e5_w", &[0.0f32, 0.125, 1.0, 3.0]);
                        (a, a + w)
                    })
                    .collect()
            };
            let op = match ch.choose("e5_op", 5) {
                0 => Op::Point((0..nvars).map(|_| val(ch)).collect()),
                1 => Op::Interval(bx(ch)),
                2 => {
                    // short slices (below the SIMD width) matter: the JIT
                    // goes through a scratch copy for them
                    let len = match ch.choose("e5_len_kind", 3) {
                        0 => ch.choose("e5_len_short", 8),
                        1 => 8 + ch.choose("e5_len_mid", 9),
                        _ => ch.choose("e5_len", 24),
                    } as usize;
                    Op::Float(
                        (0..nvars)
                            .map(|_| (0..len).map(|_| val(ch)).collect())
                            .collect(),
                    )
                }
                3 => {
                    let len = ch.choose("e5_glen", 6) as usize;
                    Op::Grad(
                        (0..nvars)
                            .map(|_| (0..len).map(|_| val(ch)).collect())
                            .collect(),
                    )
                }
                _ => Op::Simplify(bx(ch)),
            };
            ch.span_end(n_at);
            op
        })
        .collect()
}

/// Tapes shared by every logical thread
pub struct SharedTapes<F: Function> {
    pub f: F,
    pub p: <F::PointEval as TracingEvaluator>::Tape,
    pub i: <F::IntervalEval as TracingEvaluator>::Tape,
    pub fl: <F::FloatSliceEval as BulkEvaluator>::Tape,
    pub g: <F::GradSliceEval as BulkEvaluator>::Tape,
}

/// One logical thread's work: its own evaluators, clones of the shared tapes
pub fn work<F: Function + Clone>(sh: &SharedTapes<F>, ops: &[Op]) -> Vec<u64> {
    let (pt, it, ft, gt) =
        (sh.p.clone(), sh.i.clone(), sh.fl.clone(), sh.g.clone());
    let f = sh.f.clone();
    let mut pe = F::new_point_eval();
    let mut ie = F::new_interval_eval();
    let mut fe = F::new_float_slice_eval();
    let mut ge = F::new_grad_slice_eval();
    let mut out = vec![];
    for op in ops {
        let d = match op {
            Op::Point(v) => ev_point::<F>(&mut pe, &pt, v).0.digest(),
            Op::Interval(b) => {
                let v: Vec<Interval> =
                    b.iter().map(|(l, h)| Interval::new(*l, *h)).collect();
                ev_interval::<F>(&mut ie, &it, &v).0.digest()
            }
            Op::Float(cols) => ev_float::<F>(&mut fe, &ft, cols).digest(),
            Op::Grad(cols) => {
                let g: Vec<Vec<Grad>> = cols
                    .iter()
                    .enumerate()
                    .map(|(i, c)| {
                        c.iter()
                            .map(|v| {
                                let mut d = [0.0; 3];
                                d[i % 3] = 1.0;
                                Grad::new(*v, d[0], d[1], d[2])
                            })
                            .collect()
                    })
                    .collect();
                ev_grad::<F>(&mut ge, &gt, &g).digest()
            }
            Op::Simplify(b) => {
                let v: Vec<Interval> =
                    b.iter().map(|(l, h)| Interval::new(*l, *h)).collect();
                let (r, tr) = ev_interval::<F>(&mut ie, &it, &v);
                let mut h = r.digest();
                if let Some(tr) = tr {
                    match f.simplify(
                        &tr,
                        Default::default(),
                        &mut Default::default(),
                    ) {
                        Ok(c) => {
                            h = mix(h, c.size() as u64);
                            let ct = c.float_slice_tape(Default::default());
                            let cols: Vec<Vec<f32>> = b
                                .iter()
                                .map(|(l, hh)| vec![*l, *hh, (*l + *hh) / 2.0])
                                .collect();
                            h = mix(h, ev_float::<F>(&mut fe, &ct, &cols).digest());
                            // recycling while others hold clones must be
                            // refused or harmless
                            drop(ct);
                            let _ = c.recycle();
                        }
                        Err(_) => h = mix(h, 0xE44),
                    }
                }
                h
            }
        };
        out.push(d);
    }
    // dropping / recycling this thread's handles must not disturb the others
    let _ = pt.recycle();
    let _ = ft.recycle();
    out
}

fn go<F: Function + MathFunction + Clone>(
    st: &Shared,
    rep: &mut RunReport,
    fg: &FuncGen,
) {
    let mut ctx = Context::new();
    let vars: Vec<Var> = (0..fg.nvars).map(|_| Var::new()).collect();
    let nodes = fg.dag.lower(&mut ctx, &vars);
    let outs: Vec<Node> = fg.outputs.iter().map(|o| nodes[*o]).collect();
    let f = match rt::catch(|| F::new(&ctx, &outs)) {
        Ok(Ok(f)) => f,
        _ => return,
    };
    let nvars = f.vars().len();
    let (k, ops) = {
        let ch = &mut st.borrow_mut().ch;
        let k = 2 + ch.choose("e5_threads", 3) as usize;
        let ops: Vec<Vec<Op>> = (0..k).map(|_| gen_ops(ch, nvars)).collect();
        (k, ops)
    };
    let page = {
        let ch = &mut st.borrow_mut().ch;
        match ch.choose("page", 4) {
            2 => Some(256),
            3 => Some(64),
            _ => None,
        }
    };
    rep.sample = format!(
        "shared-tape threads={k} ops={:?} fn outputs={} [{}]",
        ops.iter()
            .map(|o| o
                .iter()
                .map(|op| match op {
                    Op::Point(_) => "p".to_string(),
                    Op::Interval(_) => "i".to_string(),
                    Op::Float(c) =>
                        format!("f{}", c.first().map(|v| v.len()).unwrap_or(0)),
                    Op::Grad(c) =>
                        format!("g{}", c.first().map(|v| v.len()).unwrap_or(0)),
                    Op::Simplify(_) => "s".to_string(),
                })
                .collect::<Vec<_>>()
                .join(""))
            .collect::<Vec<_>>(),
        fg.outputs.len(),
        fg.dag.describe(fg.outputs[0])
    );
    let sh = match rt::catch(|| SharedTapes::<F> {
        p: f.point_tape(Default::default()),
        i: f.interval_tape(Default::default()),
        fl: f.float_slice_tape(Default::default()),
        g: f.grad_slice_tape(Default::default()),
        f: f.clone(),
    }) {
        Ok(s) => s,
        Err(_) => return,
    };
    // solo pass: each list alone, no simulator involved
    let solo: Vec<Result<Vec<u64>, String>> =
        ops.iter().map(|o| rt::catch(|| work::<F>(&sh, o))).collect();
    if solo.iter().any(|s| s.is_err()) {
        // panics without any concurrency are not this clause's business
        rep.count("other.clean_panic", 1);
        return;
    }
    // concurrent pass on the preemptive executor
    {
        let s = &mut *st.borrow_mut();
        s.begin_exec(Some(k), None, CancelPlan::Never);
        s.page = page;
        s.preempt = true;
        s.force_split = true;
        // half of the executions hand the baton over at almost every sched
        // point (the JIT has only a few per call)
        s.fine_preempt = s.ch.flag("e5_fine_preempt");
    }
    rt::install(st);
    let sh_ref = &sh;
    let conc = rt::catch(|| {
        SimVec::new(ops.clone())
            .into_par_iter()
            .map_init(|| (), |_, o| Some(work::<F>(sh_ref, &o)))
            .collect::<Option<Vec<Vec<u64>>>>()
    });
    rt::uninstall();
    let (preemptions, items) = {
        let s = &mut *st.borrow_mut();
        s.preempt = false;
        s.force_split = false;
        s.fine_preempt = false;
        (s.preemptions, s.items)
    };
    rep.evaluations += 1;
    rep.steps += items + preemptions;
    rep.count("sched.shared_tape_executions", 1);
    rep.count("fault.preemption_inside_item", preemptions);
    rep.count("fault.shared_tape_threads", k as u64);
    rep.sigs.push(st.borrow().sched_hash);
    match conc {
        Err(p) => rep.violate(
            "C09",
            "shared_tape_panic_only_when_concurrent",
            format!("threads sharing one tape panicked: {p}"),
        ),
        Ok(None) => rep.violate(
            "C09",
            "shared_tape_lost_result",
            "a logical thread returned nothing".to_string(),
        ),
        Ok(Some(c)) => {
            for (t, (got, want)) in c.iter().zip(&solo).enumerate() {
                let want = want.as_ref().unwrap();
                rep.checked_oracle += 1;
                if got != want {
                    let at = got
                        .iter()
                        .zip(want)
                        .position(|(a, b)| a != b)
                        .unwrap_or(0);
                    rep.violate(
                        "C09",
                        "shared_tape_result_differs_from_solo",
                        format!(
                            "thread {t} of {k}: operation {at} gives another result when the other threads run concurrently on the same tape"
                        ),
                    );
                    break;
                }
            }
        }
    }
    st.borrow_mut().log("e5_done", preemptions, 0);
}

pub fn run(st: &Shared, _tier: Tier, rep: &mut RunReport) {
    let (backend, fg) = {
        let ch = &mut st.borrow_mut().ch;
        let backend = ch.choose("backend", 4);
        let max_ops = *ch.pick("fn_size", &[6usize, 12, 30, 60]);
        (backend, gen_func(ch, max_ops))
    };
    match backend {
        0 => go::<VmFunction>(st, rep, &fg),
        1 => go::<GenericVmFunction<3>>(st, rep, &fg),
        _ => go::<JitFunction>(st, rep, &fg),
    }
}
