//! Batch driver: seeded search over runs on all cores, minimisation, replay
//! files, known findings and evidence.
use crate::chooser::{Chooser, hash_str, mix};
use crate::common::*;
use crate::rt::{self, RunState, Shared};
use serde_json::{Value, json};
use std::cell::RefCell;
use std::collections::{BTreeMap, BTreeSet};
use std::rc::Rc;
use std::time::Instant;

pub struct CheckSpec {
    pub prop: &'static str,
    pub engine: &'static str,
    pub runs_quick: u64,
    pub runs_thorough: u64,
    pub run: fn(&Shared, Tier) -> RunReport,
    pub rule: &'static str,
    pub assumptions: &'static [&'static str],
    pub real_components: &'static [&'static str],
    pub stub_components: &'static [&'static str],
    /// Fault kinds that cannot exist for this property, reported as 0
    pub absent_faults: &'static [&'static str],
}

pub fn verif_seed() -> u64 {
    std::env::var("VERIF_SEED")
        .ok()
        .and_then(|s| s.trim().parse::<i64>().ok())
        .map(|v| v as u64)
        .unwrap_or(1)
}

pub fn jobs() -> usize {
    std::env::var("VERIF_JOBS")
        .ok()
        .and_then(|s| s.parse().ok())
        .unwrap_or_else(|| {
            std::thread::available_parallelism()
                .map(|n| n.get())
                .unwrap_or(4)
                .min(16)
        })
}

pub fn run_seed(spec: &CheckSpec, seed: u64, index: u64) -> u64 {
    mix(mix(seed, hash_str(spec.prop)), index)
}

/// One simulated run on a fresh thread; `replay` overrides the PRNG
pub fn one_run(
    spec: &CheckSpec,
    tier: Tier,
    rs: u64,
    replay: Option<Vec<u32>>,
) -> Result<RunReport, String> {
    let run = spec.run;
    let limit = std::env::var("VERIF_WATCHDOG_S")
        .ok()
        .and_then(|s| s.parse().ok())
        .unwrap_or(match tier {
            // generous: a legitimately slow run on a loaded machine must not
            // be mistaken for a call that never returns
            Tier::Quick => 60u64,
            Tier::Thorough => 180u64,
        });
    let prop = spec.prop;
    let r = rt::on_fresh_thread_watchdog(
        mix(rs, 0x6e7_0001),
        Some(std::time::Duration::from_secs(limit)),
        move || {
            let ch = match replay {
                Some(v) => Chooser::replay(v),
                None => Chooser::search(rs),
            };
            let st: Shared = Rc::new(RefCell::new(RunState::new(ch)));
            run(&st, tier)
        },
    )?;
    Ok(match r {
        Some(rep) => rep,
        None => {
            // bounded liveness: the call under test never returned
            let mut rep = RunReport::default();
            rep.violate(
                prop,
                HANG_CLAUSE,
                format!(
                    "the run produced no result within the {limit} s watchdog (runs normally take milliseconds): a call into the library did not return"
                ),
            );
            rep.sample = "unknown (the run is stuck; replay by seed)".into();
            rep
        }
    })
}

pub const HANG_CLAUSE: &str = "no_result_within_watchdog";

#[derive(Default)]
struct Agg {
    runs: u64,
    evaluations: u64,
    steps: u64,
    counters: BTreeMap<String, u64>,
    sigs: BTreeSet<u64>,
    samples: Vec<(u64, String)>,
    checked: u64,
    skipped: u64,
    hash: u64,
    known: BTreeMap<String, u64>,
}

pub struct KnownFinding {
    pub property: String,
    pub clause: String,
    pub text: String,
}

pub fn load_known() -> Vec<KnownFinding> {
    let path = verif_root().join("known_findings.txt");
    let Ok(s) = std::fs::read_to_string(path) else {
        return vec![];
    };
    let mut out = vec![];
    for line in s.lines() {
        let line = line.trim();
        // format: known: property=<id> clause=<clause> <free text>
        let Some(rest) = line.strip_prefix("known:") else {
            continue;
        };
        let mut property = String::new();
        let mut clause = String::new();
        for tok in rest.split_whitespace() {
            if let Some(v) = tok.strip_prefix("property=") {
                property = v.to_string();
            } else if let Some(v) = tok.strip_prefix("clause=") {
                clause = v.to_string();
            }
        }
        if !property.is_empty() && !clause.is_empty() {
            out.push(KnownFinding {
                property,
                clause,
                text: rest.trim().to_string(),
            });
        }
    }
    out
}

pub fn verif_root() -> std::path::PathBuf {
    std::env::var("VERIF_ROOT")
        .map(std::path::PathBuf::from)
        .unwrap_or_else(|_| std::path::PathBuf::from("/verif"))
}

fn is_known(known: &[KnownFinding], v: &Violation) -> bool {
    known
        .iter()
        .any(|k| k.property == v.property && k.clause == v.clause)
}

/// Runs a batch.  The parent process spawns one worker *process* per job;
/// every worker executes its share of the run indices strictly one at a time
/// (each run on a fresh OS thread), so that simulated runs never share a
/// process: process-wide state of the code under test cannot leak between
/// runs, a crash kills only one worker and is attributed to the run it was
/// executing, and a violation found in a batch replays in isolation.
/// Returns the process exit code.
pub fn check(spec: &CheckSpec, tier: Tier) -> i32 {
    if let Ok(w) = std::env::var("VERIF_WORKER") {
        let mut it = w.split('/');
        let k: u64 = it.next().and_then(|s| s.parse().ok()).unwrap_or(0);
        let j: u64 = it.next().and_then(|s| s.parse().ok()).unwrap_or(1);
        return worker(spec, tier, k, j.max(1));
    }
    let seed = verif_seed();
    let total = batch_total(spec, tier);
    let njobs = jobs().max(1) as u64;
    println!(
        "VERIF_SEED={seed} property={} engine={} tier={} runs={total} jobs={njobs}",
        spec.prop,
        spec.engine,
        tier.name(),
    );
    let known = load_known();
    let dir = verif_root()
        .join("sim")
        .join("target")
        .join(format!("batch-{}", std::process::id()));
    let _ = std::fs::remove_dir_all(&dir);
    let _ = std::fs::create_dir_all(&dir);
    let exe = std::env::current_exe().unwrap();
    let t0 = Instant::now();
    let mut children = vec![];
    for k in 0..njobs {
        let c = std::process::Command::new(&exe)
            .args(["check", spec.prop, tier.name()])
            .env("VERIF_WORKER", format!("{k}/{njobs}"))
            .env("VERIF_BATCH_DIR", &dir)
            .env("VERIF_CHILD", "1")
            .stdout(std::process::Stdio::null())
            .spawn();
        children.push(c);
    }
    let mut statuses = vec![];
    for c in children {
        statuses.push(c.ok().and_then(|mut c| c.wait().ok()));
    }
    let wall = t0.elapsed().as_secs_f64();

    // merge what the workers wrote
    let mut agg = Agg::default();
    let mut capped = false;
    let mut found: Vec<(u64, Vec<u32>, Vec<Violation>)> = vec![];
    let mut errors: Vec<(u64, String)> = vec![];
    let mut crashed: Vec<u64> = vec![];
    for k in 0..njobs {
        let ok = matches!(
            statuses[k as usize].as_ref().and_then(|s| s.code()),
            Some(0)
        );
        let text = std::fs::read_to_string(dir.join(format!("agg-{k}.json")));
        match (ok, text.ok().and_then(|t| serde_json::from_str::<Value>(&t).ok())) {
            (true, Some(j)) => {
                agg.runs += j["runs"].as_u64().unwrap_or(0);
                agg.evaluations += j["evaluations"].as_u64().unwrap_or(0);
                agg.steps += j["steps"].as_u64().unwrap_or(0);
                agg.checked += j["checked"].as_u64().unwrap_or(0);
                agg.skipped += j["skipped"].as_u64().unwrap_or(0);
                agg.hash ^= j["hash"]
                    .as_str()
                    .and_then(|s| u64::from_str_radix(s, 16).ok())
                    .unwrap_or(0);
                capped |= j["capped"].as_bool().unwrap_or(false);
                if let Some(m) = j["counters"].as_object() {
                    for (k, v) in m {
                        *agg.counters.entry(k.clone()).or_insert(0) +=
                            v.as_u64().unwrap_or(0);
                    }
                }
                if let Some(m) = j["known"].as_object() {
                    for (k, v) in m {
                        *agg.known.entry(k.clone()).or_insert(0) +=
                            v.as_u64().unwrap_or(0);
                    }
                }
                if let Some(a) = j["sigs"].as_array() {
                    agg.sigs.extend(a.iter().filter_map(|v| v.as_u64()));
                }
                if let Some(a) = j["samples"].as_array() {
                    for smp in a {
                        agg.samples.push((
                            smp[0].as_u64().unwrap_or(0),
                            smp[1].as_str().unwrap_or("").to_string(),
                        ));
                    }
                }
                if let Some(i) = j["found"]["index"].as_u64() {
                    let trace = j["found"]["trace"]
                        .as_array()
                        .map(|a| {
                            a.iter()
                                .map(|v| v.as_u64().unwrap_or(0) as u32)
                                .collect()
                        })
                        .unwrap_or_default();
                    let vs = j["found"]["violations"]
                        .as_array()
                        .map(|a| {
                            a.iter()
                                .map(|v| Violation {
                                    property: spec.prop,
                                    clause: v["clause"]
                                        .as_str()
                                        .unwrap_or("")
                                        .to_string(),
                                    detail: v["detail"]
                                        .as_str()
                                        .unwrap_or("")
                                        .to_string(),
                                })
                                .collect()
                        })
                        .unwrap_or_default();
                    found.push((i, trace, vs));
                }
                if let Some(i) = j["error"]["index"].as_u64() {
                    errors.push((
                        i,
                        j["error"]["msg"].as_str().unwrap_or("").to_string(),
                    ));
                }
            }
            _ => {
                // the worker died: the run it was executing is the suspect
                let p = std::fs::read_to_string(dir.join(format!("progress-{k}")))
                    .unwrap_or_default();
                if let Ok(i) = p.trim().parse::<u64>() {
                    crashed.push(i);
                } else {
                    errors.push((u64::MAX, format!("worker {k} died before its first run")));
                }
            }
        }
    }
    let _ = std::fs::remove_dir_all(&dir);
    agg.samples.sort();
    found.sort_by_key(|f| f.0);
    errors.sort();
    crashed.sort();
    let first_found = found.first().map(|f| f.0).unwrap_or(u64::MAX);

    // a crash of the code under test is a violation, attributed to its run
    for i in crashed {
        if i > first_found {
            break;
        }
        let st = std::process::Command::new(&exe)
            .args(["one", spec.prop, tier.name(), &i.to_string()])
            .env("VERIF_CHILD", "1")
            .stdout(std::process::Stdio::null())
            .stderr(std::process::Stdio::null())
            .status();
        let dies = match &st {
            Ok(s) => !matches!(s.code(), Some(0) | Some(1) | Some(2)),
            Err(_) => false,
        };
        if dies {
            let rs = run_seed(spec, seed, i);
            let rdir = verif_root().join("replays");
            let _ = std::fs::create_dir_all(&rdir);
            let path =
                rdir.join(format!("{}-{}-crash-{}.json", spec.prop, seed, i));
            let j = json!({
                "property": spec.prop,
                "clause": "process_crash",
                "detail": format!("the process running the code under test died ({st:?})"),
                "engine": spec.engine,
                "tier": tier.name(),
                "verif_seed": seed,
                "run_index": i,
                "run_seed": rs,
                "mode": "seed",
                "replay_cmd": format!("/verif/run.sh replay {}", path.display()),
            });
            std::fs::write(&path, serde_json::to_string_pretty(&j).unwrap())
                .unwrap();
            println!("VIOLATION property={} replay={}", spec.prop, path.display());
            println!(
                "  clause=process_crash detail=run {i} kills the process ({st:?})"
            );
            write_evidence(spec, tier, seed, &agg, wall, 1, total);
            return 1;
        }
        eprintln!(
            "HARNESS-ERROR: a worker died while executing run {i}, but the run alone does not"
        );
        return 2;
    }
    if let Some((i, e)) = errors.first() {
        if *i <= first_found {
            eprintln!("HARNESS-ERROR run={i} {e}");
            return 2;
        }
    }

    let mut violations = 0;
    let mut exit = 0;
    if let Some((i, trace0, vs)) = found.into_iter().next() {
        let v = vs
            .iter()
            .find(|v| !is_known(&known, v))
            .cloned()
            .unwrap_or_else(|| vs[0].clone());
        println!(
            "violation candidate: run={i} property={} clause={} : {}",
            v.property, v.clause, v.detail
        );
        let rs = run_seed(spec, seed, i);
        if v.clause == HANG_CLAUSE {
            let rdir = verif_root().join("replays");
            let _ = std::fs::create_dir_all(&rdir);
            let path =
                rdir.join(format!("{}-{}-hang-{}.json", spec.prop, seed, i));
            let j = json!({
                "property": spec.prop,
                "clause": HANG_CLAUSE,
                "detail": v.detail,
                "engine": spec.engine,
                "tier": tier.name(),
                "verif_seed": seed,
                "run_index": i,
                "run_seed": rs,
                "mode": "seed",
                "replay_cmd": format!("/verif/run.sh replay {}", path.display()),
            });
            std::fs::write(&path, serde_json::to_string_pretty(&j).unwrap())
                .unwrap();
            println!("VIOLATION property={} replay={}", spec.prop, path.display());
            println!("  clause={} detail={}", v.clause, v.detail);
            write_evidence(spec, tier, seed, &agg, wall, 1, total);
            return 1;
        }
        // minimise in a process of its own: no other simulation shares it, and
        // a shrunken candidate that crashes the code under test kills only the
        // minimiser, which is then restarted from the best trace so far
        let (path, fv, n1, replays) =
            minimise_in_child(spec, tier, seed, i, rs, &trace0, &v);
        println!(
            "minimised choice trace {} -> {} values in {replays} replays",
            trace0.len(),
            n1
        );
        // confirm in a fresh process
        let out = std::process::Command::new(&exe)
            .arg("replay")
            .arg(&path)
            .env("VERIF_CHILD", "1")
            .output();
        let confirmed = match out {
            Ok(o) => {
                let so = String::from_utf8_lossy(&o.stdout);
                so.lines().any(|l| l.starts_with("REPRODUCED"))
            }
            Err(_) => false,
        };
        let (path, fv) = if confirmed {
            (path, fv)
        } else {
            // The minimised trace is the most fragile witness.  A change whose
            // effect depends on memory the code must not read (an out-of-bounds
            // load in generated code, a stale pointer) fails differently from
            // process to process: fall back to the whole run, replayed by its
            // seed in fresh processes, and accept any clause of the same
            // property that is not a known finding.
            match confirm_by_seed(spec, tier, seed, i, rs, &v, &known, &exe) {
                Some(r) => {
                    println!(
                        "note: the minimised trace did not replay in a fresh process; the replay file re-executes the whole run by its seed"
                    );
                    r
                }
                None => {
                    eprintln!(
                        "HARNESS-ERROR violation at run={i} did not replay in a fresh process ({})",
                        path.display()
                    );
                    return 2;
                }
            }
        };
        println!("VIOLATION property={} replay={}", fv.property, path.display());
        println!("  clause={} detail={}", fv.clause, fv.detail);
        violations = 1;
        exit = 1;
    }
    for (k, n) in &agg.known {
        let text = known
            .iter()
            .find(|f| format!("property={} clause={}", f.property, f.clause) == *k)
            .map(|f| f.text.clone())
            .unwrap_or_default();
        println!("KNOWN-FINDING: {text} (hit {n} times in this batch)");
    }
    if let Some(n) = agg
        .counters
        .get("other.pool_execution_bypassed_the_executor_seam")
    {
        println!(
            "WARNING: {n} pool executions produced no executor events: the parallel fan-out no longer goes through the simulated executor, schedules are not being explored for them"
        );
    }
    write_evidence(spec, tier, seed, &agg, wall, violations, total);
    println!(
        "runs={} executions={} steps={} distinct_schedules={} wall={:.1}s batch_hash={:016x}{}",
        agg.runs,
        agg.evaluations,
        agg.steps,
        agg.sigs.len(),
        wall,
        agg.hash,
        if capped {
            " (wall cap reached, batch truncated)"
        } else {
            ""
        }
    );
    exit
}

fn batch_total(spec: &CheckSpec, tier: Tier) -> u64 {
    std::env::var("VERIF_RUNS")
        .ok()
        .and_then(|s| s.parse().ok())
        .unwrap_or(match tier {
            Tier::Quick => spec.runs_quick,
            Tier::Thorough => spec.runs_thorough,
        })
}

/// `one <prop> <tier> <index>`: a single run, for crash isolation
pub fn one(spec: &CheckSpec, tier: Tier, index: u64) -> i32 {
    let rs = run_seed(spec, verif_seed(), index);
    match one_run(spec, tier, rs, None) {
        Ok(r) if r.violations.is_empty() => 0,
        Ok(_) => 1,
        Err(_) => 2,
    }
}

/// Worker process `k` of `j`: run indices k, k+j, k+2j, ... one at a time
fn worker(spec: &CheckSpec, tier: Tier, k: u64, j: u64) -> i32 {
    let seed = verif_seed();
    let total = batch_total(spec, tier);
    let wall_cap: f64 = std::env::var("VERIF_WALL_CAP_S")
        .ok()
        .and_then(|s| s.parse().ok())
        .unwrap_or(match tier {
            Tier::Quick => 240.0,
            Tier::Thorough => 3300.0,
        });
    let dir = std::path::PathBuf::from(
        std::env::var("VERIF_BATCH_DIR").unwrap_or_else(|_| ".".into()),
    );
    let known = load_known();
    let t0 = Instant::now();
    let mut local = Agg::default();
    let mut capped = false;
    let mut found = Value::Null;
    let mut error = Value::Null;
    let progress = dir.join(format!("progress-{k}"));
    // the smallest index at which some worker found a violation
    let stop_after = |dir: &std::path::Path| -> u64 {
        let mut m = u64::MAX;
        if let Ok(rd) = std::fs::read_dir(dir) {
            for e in rd.flatten() {
                if let Some(n) = e.file_name().to_str() {
                    if let Some(i) = n.strip_prefix("stop-") {
                        if let Ok(i) = i.parse::<u64>() {
                            m = m.min(i);
                        }
                    }
                }
            }
        }
        m
    };
    let mut i = k;
    while i < total {
        if i > stop_after(&dir) {
            break;
        }
        if t0.elapsed().as_secs_f64() > wall_cap {
            capped = true;
            break;
        }
        let _ = std::fs::write(&progress, format!("{i}\n"));
        let rs = run_seed(spec, seed, i);
        match one_run(spec, tier, rs, None) {
            Err(e) => {
                let _ = std::fs::write(dir.join(format!("stop-{i}")), "");
                error = json!({"index": i, "msg": e});
                break;
            }
            Ok(rep) => {
                local.runs += 1;
                local.evaluations += rep.evaluations;
                local.steps += rep.steps;
                local.checked += rep.checked_oracle;
                local.skipped += rep.skipped_oracle;
                local.hash ^= mix(i, rep.log_hash);
                if let Ok(p) = std::env::var("VERIF_DUMP") {
                    use std::io::Write;
                    if let Ok(mut f) = std::fs::OpenOptions::new()
                        .append(true)
                        .create(true)
                        .open(p)
                    {
                        let mut smp = rep.sample.clone();
                        smp.truncate(120);
                        let line = format!(
                            "{i} {:016x} {} {}\n",
                            rep.log_hash,
                            rep.trace.len(),
                            smp
                        );
                        let _ = f.write_all(line.as_bytes());
                    }
                }
                for (c, v) in &rep.counters {
                    *local.counters.entry(c.to_string()).or_insert(0) += v;
                }
                local.sigs.extend(rep.sigs.iter().copied());
                if i < 3 {
                    let ev: Vec<String> = rep
                        .events
                        .iter()
                        .take(40)
                        .map(|(s, a, b)| format!("{s}({a},{b})"))
                        .collect();
                    local.samples.push((
                        i,
                        format!(
                            "{} || first events: {} || choices drawn: {}",
                            rep.sample,
                            ev.join(" "),
                            rep.trace.len()
                        ),
                    ));
                }
                let mut unknown = false;
                for v in &rep.violations {
                    if is_known(&known, v) {
                        *local
                            .known
                            .entry(format!(
                                "property={} clause={}",
                                v.property, v.clause
                            ))
                            .or_insert(0) += 1;
                    } else {
                        unknown = true;
                    }
                }
                if unknown {
                    let _ = std::fs::write(dir.join(format!("stop-{i}")), "");
                    found = json!({
                        "index": i,
                        "trace": rep.trace,
                        "violations": rep.violations.iter().map(|v| json!({
                            "clause": v.clause, "detail": v.detail,
                        })).collect::<Vec<_>>(),
                    });
                    break;
                }
            }
        }
        i += j;
    }
    let out = json!({
        "runs": local.runs,
        "evaluations": local.evaluations,
        "steps": local.steps,
        "checked": local.checked,
        "skipped": local.skipped,
        "hash": format!("{:016x}", local.hash),
        "capped": capped,
        "counters": local.counters,
        "known": local.known,
        "sigs": local.sigs.iter().collect::<Vec<_>>(),
        "samples": local.samples.iter().map(|(i, s)| json!([i, s])).collect::<Vec<_>>(),
        "found": found,
        "error": error,
    });
    let _ = std::fs::write(
        dir.join(format!("agg-{k}.json")),
        serde_json::to_string(&out).unwrap(),
    );
    // a hung run leaves a stuck thread behind: leave without joining it
    std::process::exit(0);
}

fn same_violation(rep: &RunReport, v: &Violation) -> bool {
    rep.violations
        .iter()
        .any(|x| x.property == v.property && x.clause == v.clause)
}

fn trace_hash(t: &[u32]) -> u64 {
    t.iter().fold(0x7ace, |h, v| mix(h, *v as u64))
}

fn write_trace(path: &std::path::Path, t: &[u32]) {
    let tmp = path.with_extension("tmp");
    if std::fs::write(&tmp, serde_json::to_string(t).unwrap()).is_ok() {
        let _ = std::fs::rename(&tmp, path);
    }
}

fn read_trace(path: &std::path::Path) -> Option<Vec<u32>> {
    serde_json::from_str(&std::fs::read_to_string(path).ok()?).ok()
}

/// Shrinks the choice trace while the same property and clause still fail.
/// Runs in a process of its own (`minimise_in_child`): a shrunken candidate
/// may drive the code under test into a crash that the original run did not
/// have.  `skip` holds the hashes of candidates that killed an earlier
/// minimiser process; `progress` is a directory in which the candidate being
/// tried (`trying.json`) and the best trace so far (`best.json`) are recorded.
fn minimise(
    spec: &CheckSpec,
    tier: Tier,
    rs: u64,
    trace: Vec<u32>,
    v: &Violation,
    skip: &BTreeSet<u64>,
    progress: Option<&std::path::Path>,
    budget_s: u64,
) -> (Vec<u32>, RunReport, u32) {
    let t0 = Instant::now();
    let mut replays = 0u32;
    let mut best = trace;
    let budget = |replays: u32| replays < 6000 && t0.elapsed().as_secs() < budget_s;
    let try_ = |cand: &Vec<u32>, replays: &mut u32| -> Option<RunReport> {
        if skip.contains(&trace_hash(cand)) {
            return None;
        }
        *replays += 1;
        if let Some(d) = progress {
            write_trace(&d.join("trying.json"), cand);
        }
        match one_run(spec, tier, rs, Some(cand.clone())) {
            Ok(r) if same_violation(&r, v) => {
                if let Some(d) = progress {
                    write_trace(&d.join("best.json"), cand);
                }
                Some(r)
            }
            _ => None,
        }
    };
    let mut best_rep = match try_(&best, &mut replays) {
        Some(r) => r,
        None => {
            // not reproducible in-process: report as is, the fresh-process
            // confirmation will turn this into a harness error
            return (best, RunReport::default(), replays);
        }
    };
    // the run may not have consumed the whole trace
    best.truncate(best_rep.trace.len());

    // Passes repeat until a whole round makes no progress (or the budget is
    // spent).  Value 0 is the simplest alternative at every choice site and an
    // exhausted trace reads as zeros, so truncating, zeroing, deleting and
    // lowering all move towards simpler workloads, schedules and faults.
    loop {
        let before = (best.len(), best.iter().map(|v| *v as u64).sum::<u64>());
        // 0. delete whole list elements (an operation of the history, a
        // function of the pool, a primitive of the shape): remove the span's
        // values and decrement the drawn list length, largest spans first
        // (one sweep from the end of the trace to its beginning, so that the
        // indices of the spans still to be tried stay valid)
        let mut tried: std::collections::BTreeSet<(usize, usize)> =
            std::collections::BTreeSet::new();
        loop {
            let mut spans = best_rep.spans.clone();
            spans.retain(|(s0, e0, c)| {
                *e0 <= best.len()
                    && *c < *s0
                    && best[*c] > 0
                    && !tried.contains(&(*s0, *e0 - *s0))
            });
            // last start first; among equal starts the enclosing span first
            let Some((s0, e0, c)) = spans
                .into_iter()
                .max_by_key(|(s0, e0, _)| (*s0, e0 - s0))
            else {
                break;
            };
            if !budget(replays) {
                break;
            }
            tried.insert((s0, e0 - s0));
            let mut cand = best.clone();
            cand[c] -= 1;
            cand.drain(s0..e0);
            if let Some(r) = try_(&cand, &mut replays) {
                best = cand;
                best_rep = r;
            }
        }
        // 1. truncate the suffix (binary search for the shortest prefix)
        let mut lo = 0usize;
        let mut hi = best.len();
        while lo < hi && budget(replays) {
            let mid = (lo + hi) / 2;
            let cand = best[..mid].to_vec();
            if let Some(r) = try_(&cand, &mut replays) {
                best = cand;
                best_rep = r;
                hi = mid;
            } else {
                lo = mid + 1;
            }
        }
        // 2. delete blocks, then zero blocks, halving the block size
        let mut block = best.len().max(1).next_power_of_two() / 2;
        while block >= 1 && budget(replays) {
            let mut start = 0;
            while start < best.len() && budget(replays) {
                let end = (start + block).min(best.len());
                let mut cand = best.clone();
                cand.drain(start..end);
                if let Some(r) = try_(&cand, &mut replays) {
                    best = cand;
                    best_rep = r;
                    continue; // same start, next block slid into place
                }
                if best[start..end].iter().any(|x| *x != 0) {
                    let mut cand = best.clone();
                    for x in &mut cand[start..end] {
                        *x = 0;
                    }
                    if let Some(r) = try_(&cand, &mut replays) {
                        best = cand;
                        best_rep = r;
                    }
                }
                start = end;
            }
            block /= 2;
        }
        // 3. lower single values (towards 0 by halving, then by one)
        for i in 0..best.len() {
            if !budget(replays) {
                break;
            }
            let mut v0 = best[i];
            while v0 > 0 && budget(replays) {
                let mut cand = best.clone();
                cand[i] = v0 / 2;
                if let Some(r) = try_(&cand, &mut replays) {
                    best = cand;
                    best_rep = r;
                    v0 /= 2;
                } else {
                    break;
                }
            }
            if v0 > 1 && budget(replays) {
                let mut cand = best.clone();
                cand[i] = v0 - 1;
                if let Some(r) = try_(&cand, &mut replays) {
                    best = cand;
                    best_rep = r;
                }
            }
        }
        let after = (best.len(), best.iter().map(|v| *v as u64).sum::<u64>());
        if after >= before || !budget(replays) {
            break;
        }
    }
    while best.last() == Some(&0) {
        best.pop();
    }
    // final authoritative run of the minimised trace
    if let Some(r) = try_(&best, &mut replays) {
        best_rep = r;
    }
    (best, best_rep, replays)
}

/// Parent side of the out-of-process minimiser
fn minimise_in_child(
    spec: &CheckSpec,
    tier: Tier,
    seed: u64,
    index: u64,
    rs: u64,
    trace0: &[u32],
    v: &Violation,
) -> (std::path::PathBuf, Violation, usize, u64) {
    let dir = verif_root()
        .join("sim")
        .join("target")
        .join(format!("minimise-{}", std::process::id()));
    let _ = std::fs::remove_dir_all(&dir);
    let _ = std::fs::create_dir_all(&dir);
    let exe = std::env::current_exe().unwrap();
    let mut skip: Vec<u64> = vec![];
    let mut start: Vec<u32> = trace0.to_vec();
    let mut replays = 0u64;
    let t0 = Instant::now();
    let mut result: Option<Value> = None;
    for attempt in 0..16 {
        let left = 100u64.saturating_sub(t0.elapsed().as_secs());
        let job = json!({
            "verif_seed": seed, "run_index": index, "run_seed": rs,
            "trace": start, "property": v.property, "clause": v.clause,
            "detail": v.detail, "skip": skip,
            "budget_s": if attempt == 0 { 90 } else { left.min(90) },
        });
        let _ = std::fs::write(dir.join("job.json"), serde_json::to_string(&job).unwrap());
        let _ = std::fs::remove_file(dir.join("result.json"));
        let _ = std::fs::remove_file(dir.join("trying.json"));
        let st = std::process::Command::new(&exe)
            .args(["minimise", spec.prop, tier.name()])
            .arg(&dir)
            .env("VERIF_CHILD", "1")
            .stdout(std::process::Stdio::null())
            .stderr(std::process::Stdio::null())
            .status();
        if let Some(r) = std::fs::read_to_string(dir.join("result.json"))
            .ok()
            .and_then(|s| serde_json::from_str::<Value>(&s).ok())
        {
            replays += r["replays"].as_u64().unwrap_or(0);
            result = Some(r);
            break;
        }
        // the minimiser died: the candidate it was trying is not tried again
        println!(
            "minimiser process died ({st:?}) on a shrunken candidate; restarting from the best trace so far"
        );
        if let Some(t) = read_trace(&dir.join("trying.json")) {
            skip.push(trace_hash(&t));
        } else {
            break;
        }
        if let Some(b) = read_trace(&dir.join("best.json")) {
            start = b;
        }
        if left == 0 {
            break;
        }
    }
    let out = match result {
        Some(r) => {
            let fv = Violation {
                property: v.property,
                clause: r["clause"].as_str().unwrap_or(&v.clause).to_string(),
                detail: r["detail"].as_str().unwrap_or(&v.detail).to_string(),
            };
            (
                std::path::PathBuf::from(r["replay"].as_str().unwrap_or("")),
                fv,
                r["trace_len"].as_u64().unwrap_or(0) as usize,
                replays,
            )
        }
        None => {
            // no minimiser survived: report the best trace known to fail,
            // without re-executing it here
            let mut rep = RunReport::default();
            rep.sample = "unknown (every minimiser process died; the trace below is the shortest one known to fail)".into();
            let path = write_replay(spec, tier, seed, index, rs, &start, &rep, v);
            (path, v.clone(), start.len(), replays)
        }
    };
    let _ = std::fs::remove_dir_all(&dir);
    out
}

/// `fidget-sim minimise <prop> <tier> <dir>`: child side
pub fn minimise_child(spec: &CheckSpec, tier: Tier, dir: &str) -> i32 {
    let dir = std::path::PathBuf::from(dir);
    let Some(job) = std::fs::read_to_string(dir.join("job.json"))
        .ok()
        .and_then(|s| serde_json::from_str::<Value>(&s).ok())
    else {
        return 2;
    };
    let v = Violation {
        property: spec.prop,
        clause: job["clause"].as_str().unwrap_or("").to_string(),
        detail: job["detail"].as_str().unwrap_or("").to_string(),
    };
    let trace: Vec<u32> = job["trace"]
        .as_array()
        .map(|a| a.iter().map(|x| x.as_u64().unwrap_or(0) as u32).collect())
        .unwrap_or_default();
    let skip: BTreeSet<u64> = job["skip"]
        .as_array()
        .map(|a| a.iter().filter_map(|x| x.as_u64()).collect())
        .unwrap_or_default();
    let rs = job["run_seed"].as_u64().unwrap_or(0);
    let (trace, final_rep, replays) = minimise(
        spec,
        tier,
        rs,
        trace,
        &v,
        &skip,
        Some(&dir),
        job["budget_s"].as_u64().unwrap_or(90),
    );
    let fv = final_rep
        .violations
        .iter()
        .find(|x| x.property == v.property && x.clause == v.clause)
        .cloned()
        .unwrap_or(v.clone());
    let path = write_replay(
        spec,
        tier,
        job["verif_seed"].as_u64().unwrap_or(0),
        job["run_index"].as_u64().unwrap_or(0),
        rs,
        &trace,
        &final_rep,
        &fv,
    );
    let out = json!({
        "replay": path.display().to_string(), "trace_len": trace.len(), "replays": replays,
        "property": fv.property, "clause": fv.clause, "detail": fv.detail,
    });
    let tmp = dir.join("result.tmp");
    if std::fs::write(&tmp, serde_json::to_string(&out).unwrap()).is_ok() {
        let _ = std::fs::rename(&tmp, dir.join("result.json"));
    }
    // a hung candidate leaves a stuck thread behind: leave without joining it
    std::process::exit(0);
}

/// Fallback confirmation of a violation whose minimised trace does not replay
/// in a fresh process: the whole run, by its seed, in up to three fresh
/// processes; the clause may be any clause of the same property that is not a
/// known finding (the file records the clause the fresh process saw).
#[allow(clippy::too_many_arguments)]
fn confirm_by_seed(
    spec: &CheckSpec,
    tier: Tier,
    seed: u64,
    index: u64,
    rs: u64,
    v: &Violation,
    known: &[KnownFinding],
    exe: &std::path::Path,
) -> Option<(std::path::PathBuf, Violation)> {
    let rdir = verif_root().join("replays");
    let _ = std::fs::create_dir_all(&rdir);
    let path = rdir.join(format!("{}-{}-run-{}.json", spec.prop, seed, index));
    let mut clause = v.clause.clone();
    let mut detail = v.detail.clone();
    for _attempt in 0..3 {
        let j = json!({
            "property": spec.prop,
            "clause": clause,
            "detail": detail,
            "engine": spec.engine,
            "tier": tier.name(),
            "verif_seed": seed,
            "run_index": index,
            "run_seed": rs,
            "mode": "seed",
            "note": "the minimised choice trace of this violation did not replay in a fresh process (the failure depends on process state the code must not depend on); this file re-executes the whole run",
            "replay_cmd": format!("/verif/run.sh replay {}", path.display()),
        });
        std::fs::write(&path, serde_json::to_string_pretty(&j).unwrap()).ok()?;
        let out = std::process::Command::new(exe)
            .arg("replay")
            .arg(&path)
            .env("VERIF_CHILD", "1")
            .output()
            .ok()?;
        let so = String::from_utf8_lossy(&out.stdout).to_string();
        if let Some(l) = so.lines().find(|l| l.starts_with("REPRODUCED")) {
            let d = l.splitn(2, " : ").nth(1).unwrap_or(&detail).to_string();
            return Some((
                path,
                Violation {
                    property: v.property,
                    clause,
                    detail: d,
                },
            ));
        }
        // another clause of the same property?
        let other = so
            .lines()
            .find(|l| l.starts_with("NOT-REPRODUCED"))
            .and_then(|l| l.split("other violations: [").nth(1))
            .map(|t| {
                t.trim_end_matches(|c| c == ')' || c == ']')
                    .split(", ")
                    .map(|c| c.trim_matches('"').to_string())
                    .filter(|c| !c.is_empty())
                    .collect::<Vec<_>>()
            })
            .unwrap_or_default();
        let next = other.into_iter().find(|c| {
            !is_known(
                known,
                &Violation {
                    property: v.property,
                    clause: c.clone(),
                    detail: String::new(),
                },
            )
        });
        if let Some(c) = next {
            clause = c;
            detail = "(clause observed by the fresh replay process)".to_string();
        }
    }
    let _ = std::fs::remove_file(&path);
    None
}

fn write_replay(
    spec: &CheckSpec,
    tier: Tier,
    seed: u64,
    index: u64,
    rs: u64,
    trace: &[u32],
    rep: &RunReport,
    v: &Violation,
) -> std::path::PathBuf {
    let dir = verif_root().join("replays");
    let _ = std::fs::create_dir_all(&dir);
    let h = mix(rep.log_hash, hash_str(&v.clause));
    let path = dir.join(format!("{}-{}-{:08x}.json", spec.prop, seed, h as u32));
    let events: Vec<Value> = rep
        .events
        .iter()
        .take(400)
        .map(|(s, a, b)| json!([s, a, b]))
        .collect();
    let sites: Vec<Value> = rep
        .trace_sites
        .iter()
        .zip(&rep.trace)
        .take(trace.len().max(1))
        .map(|(s, v)| json!(format!("{s}={v}")))
        .collect();
    let j = json!({
        "property": v.property,
        "clause": v.clause,
        "detail": v.detail,
        "engine": spec.engine,
        "tier": tier.name(),
        "verif_seed": seed,
        "run_index": index,
        "run_seed": rs,
        "choice_trace": trace,
        "decoded_choices": sites,
        "workload": rep.sample,
        "schedule_events": events,
        "expected_log_hash": format!("{:016x}", rep.log_hash),
        "replay_cmd": format!("/verif/run.sh replay {}", path.display()),
    });
    std::fs::write(&path, serde_json::to_string_pretty(&j).unwrap()).unwrap();
    path
}

/// `replay <file>`: re-executes a recorded run in a child process; exit 1 if
/// it reproduces (including reproducing a crash)
pub fn replay(specs: &[CheckSpec], path: &str) -> i32 {
    if std::env::var("VERIF_CHILD").is_ok() {
        return replay_inner(specs, path);
    }
    let exe = std::env::current_exe().unwrap();
    let st = std::process::Command::new(exe)
        .args(["replay", path])
        .env("VERIF_CHILD", "1")
        .status();
    match st.as_ref().ok().and_then(|s| s.code()) {
        Some(c) if c == 0 || c == 1 || c == 2 => c,
        _ => {
            let j: Value = std::fs::read_to_string(path)
                .ok()
                .and_then(|s| serde_json::from_str(&s).ok())
                .unwrap_or(Value::Null);
            println!(
                "REPRODUCED property={} clause=process_crash : the replay process died ({st:?})",
                j["property"].as_str().unwrap_or("?")
            );
            1
        }
    }
}

fn replay_inner(specs: &[CheckSpec], path: &str) -> i32 {
    let Ok(s) = std::fs::read_to_string(path) else {
        eprintln!("cannot read {path}");
        return 2;
    };
    let Ok(j) = serde_json::from_str::<Value>(&s) else {
        eprintln!("cannot parse {path}");
        return 2;
    };
    let prop = j["property"].as_str().unwrap_or("");
    let engine = j["engine"].as_str().unwrap_or("");
    let Some(spec) = specs
        .iter()
        .find(|s| s.prop == prop && (engine.is_empty() || s.engine == engine))
    else {
        eprintln!("unknown property {prop}");
        return 2;
    };
    let tier = if j["tier"].as_str() == Some("thorough") {
        Tier::Thorough
    } else {
        Tier::Quick
    };
    let rs = j["run_seed"].as_u64().unwrap_or(0);
    let trace: Option<Vec<u32>> = if j["mode"].as_str() == Some("seed") {
        None
    } else {
        Some(
            j["choice_trace"]
                .as_array()
                .map(|a| {
                    a.iter().map(|v| v.as_u64().unwrap_or(0) as u32).collect()
                })
                .unwrap_or_default(),
        )
    };
    let clause = j["clause"].as_str().unwrap_or("").to_string();
    let expected = j["expected_log_hash"].as_str().unwrap_or("").to_string();
    match one_run(spec, tier, rs, trace) {
        Err(e) => {
            println!("replay aborted: {e}");
            2
        }
        Ok(rep) => {
            let got = format!("{:016x}", rep.log_hash);
            println!("workload: {}", rep.sample);
            for (s, a, b) in rep.events.iter().take(60) {
                println!("  event {s} {a} {b}");
            }
            if let Some(v) = rep
                .violations
                .iter()
                .find(|v| v.property == prop && v.clause == clause)
            {
                let same = got == expected;
                println!(
                    "REPRODUCED property={} clause={} log_hash={} ({}) : {}",
                    v.property,
                    v.clause,
                    got,
                    if same {
                        "identical to recorded"
                    } else {
                        "differs from recorded"
                    },
                    v.detail
                );
                1
            } else {
                println!(
                    "NOT-REPRODUCED property={prop} clause={clause} log_hash={got} (other violations: {:?})",
                    rep.violations
                        .iter()
                        .map(|v| v.clause.clone())
                        .collect::<Vec<_>>()
                );
                0
            }
        }
    }
}

fn write_evidence(
    spec: &CheckSpec,
    tier: Tier,
    seed: u64,
    agg: &Agg,
    wall: f64,
    violations: u32,
    planned: u64,
) {
    let dir = verif_root().join("evidence");
    let _ = std::fs::create_dir_all(&dir);
    let mut faults = serde_json::Map::new();
    let mut probes = serde_json::Map::new();
    let mut other = serde_json::Map::new();
    for (k, v) in &agg.counters {
        if let Some(f) = k.strip_prefix("fault.") {
            faults.insert(f.to_string(), json!(v));
        } else if k.contains('.') {
            other.insert(k.to_string(), json!(v));
        } else {
            probes.insert(k.to_string(), json!(v));
        }
    }
    for f in spec.absent_faults {
        faults.insert(format!("{f} (0 by construction: does not exist in this code base)"), json!(0));
    }
    let samples: Vec<Value> = agg
        .samples
        .iter()
        .map(|(i, s)| json!({"run_index": i, "workload": s}))
        .collect();
    let hours = (wall / 3600.0).max(1e-9);
    let j = json!({
        "property_id": spec.prop,
        "tier": tier.name(),
        "seed": seed as i64,
        "level": "exploration",
        "wall_s": wall,
        "violations": violations,
        "coverage": {
            "evaluations": agg.evaluations.max(agg.runs),
            "distinct_nontrivial": agg.sigs.len(),
            "rule": spec.rule,
            "samples": samples,
            "simulated_runs": agg.runs,
            "planned_runs": planned,
            "runs_per_hour": (agg.runs as f64 / hours) as u64,
            "seeds_per_hour": (agg.runs as f64 / hours) as u64,
            "simulated_time": {
                "unit": "logical steps (executor items, cancel polls, operations); the system has no clock",
                "steps": agg.steps
            },
            "faults_injected": faults,
            "probes_hit": probes,
            "other_counters": other,
            "oracle_comparisons_made": agg.checked,
            "oracle_comparisons_skipped_as_outside_claim": agg.skipped,
            "known_findings_hit": agg.known.iter().map(|(k, v)| json!({"finding": k, "hits": v})).collect::<Vec<_>>(),
            "components_real": spec.real_components,
            "components_stubbed": spec.stub_components,
            "batch_hash": format!("{:016x}", agg.hash),
            "engine": spec.engine,
        },
        "assumptions": spec.assumptions,
    });
    let path = dir.join(format!("{}.json", spec.prop));
    std::fs::write(path, serde_json::to_string_pretty(&j).unwrap()).unwrap();
}
