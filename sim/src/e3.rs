//! E3 ident-sim (C14, C19): every run executes on a fresh OS thread whose
//! `RandomState` keys and `Var::new()` ids come from the getrandom seam, so
//! the hash iteration orders the code under test walks (VarMap, ShapeVars,
//! the solver's parameter map = Jacobian column packing) are a function of
//! VERIF_SEED, replayable and shrinkable.
use crate::chooser::{Chooser, mix};
use crate::common::*;
use crate::gen_::{Bin, Dag, Dual, Ex, Un, eval_dual, eval_f32};
use crate::rt::{self, Shared};
use fidget_core::{
    Context,
    context::Node,
    eval::{Function, MathFunction},
    shape::{
        EzShape, Shape, ShapeBulkEval, ShapeBulkEvalError, ShapeTracingEval,
        ShapeTracingEvalError, ShapeVars,
    },
    types::{Grad, Interval},
    var::Var,
    vm::{GenericVmFunction, VmFunction},
};
use fidget_jit::JitFunction;
use fidget_solver::{Parameter, solve};
use nalgebra::{Matrix4, Point3, Vector3};
use std::collections::HashMap;

////////////////////////////////////////////////////////////////////////////////
// C14

struct VarFunc {
    dag: Dag,
    root: usize,
    nvars: usize,
    axes: u32,
    /// value supplied for variable k
    values: Vec<f32>,
}

/// An expression in which every variable has its own, well separated
/// influence, built in a drawn traversal order.
fn gen_varfunc(ch: &mut Chooser, same_as: Option<&VarFunc>) -> VarFunc {
    let mut dag = Dag::default();
    let (nvars, axes) = match same_as {
        // same variables and axes as an earlier function of this run, met
        // in another order
        Some(o) => (o.nvars, o.axes),
        None => (
            match ch.choose("nvars_kind", 4) {
                0 => ch.choose("nvars_small", 4),
                1 | 2 => ch.choose("nvars_mid", 13),
                _ => ch.choose("nvars_big", 41),
            } as usize,
            ch.choose("axes", 8), // bitmask, may be empty
        ),
    };
    // leaves in a drawn order: this is the order in which the compiler first
    // meets each variable
    let mut leaves: Vec<Ex> = vec![];
    if axes & 1 != 0 {
        leaves.push(Ex::X);
    }
    if axes & 2 != 0 {
        leaves.push(Ex::Y);
    }
    if axes & 4 != 0 {
        leaves.push(Ex::Z);
    }
    for k in 0..nvars {
        leaves.push(Ex::V(k));
    }
    if leaves.is_empty() {
        leaves.push(Ex::X);
    }
    // Fisher-Yates with the chooser
    for i in (1..leaves.len()).rev() {
        let j = ch.choose("leaf_shuffle", i as u32 + 1) as usize;
        leaves.swap(i, j);
    }
    // each leaf becomes a term coef*leaf (coef distinct per leaf), optionally
    // wrapped; terms are folded with add / min / max
    let mut acc: Option<usize> = None;
    for (i, leaf) in leaves.iter().enumerate() {
        let l = dag.push(*leaf);
        let coef = 0.25 + 0.125 * (i as f32) * if i % 2 == 0 { 1.0 } else { -1.0 };
        let c = dag.c(coef);
        let mut t = dag.b(Bin::Mul, l, c);
        match ch.choose("term_wrap", 8) {
            1 => t = dag.u(Un::Abs, t),
            2 => t = dag.u(Un::Neg, t),
            3 => {
                let k = dag.c(0.01);
                let s = dag.b(Bin::Mul, t, k);
                t = dag.u(Un::Square, s);
            }
            4 => {
                let k = dag.c(0.1);
                let s = dag.b(Bin::Mul, t, k);
                t = dag.u(Un::Sin, s);
            }
            _ => (),
        }
        acc = Some(match acc {
            None => t,
            Some(a) => match ch.choose("fold", 6) {
                0 => dag.b(Bin::Min, a, t),
                1 => dag.b(Bin::Max, a, t),
                2 => dag.b(Bin::Sub, a, t),
                _ => dag.b(Bin::Add, a, t),
            },
        });
    }
    // a final choice against a constant so that simplification has something
    // to prune
    let mut root = acc.unwrap();
    if ch.flag("outer_choice") {
        let k = dag.c(ch.float_sym("outer_c", 40.0, 8));
        root = if ch.flag("outer_min") {
            dag.b(Bin::Min, root, k)
        } else {
            dag.b(Bin::Max, root, k)
        };
    }
    let values = (0..nvars).map(|k| 10.0 + 3.7 * k as f32).collect();
    VarFunc {
        dag,
        root,
        nvars,
        axes,
        values,
    }
}

fn gen_transform(ch: &mut Chooser) -> Option<Matrix4<f32>> {
    if ch.choose("xf_none", 4) == 0 {
        return None;
    }
    // independent ingredients, so that structured matrices (pure
    // translation, pure perspective, rotation without translation, ...) are
    // as likely as fully general ones
    let mut m = Matrix4::identity();
    if ch.flag("xf_has_rot") {
        let axis = match ch.choose("xf_axis", 3) {
            0 => Vector3::z(),
            1 => Vector3::x(),
            _ => Vector3::new(1.0, 2.0, 3.0).normalize(),
        };
        m = Matrix4::from_axis_angle(
            &nalgebra::Unit::new_normalize(axis),
            ch.float_sym("xf_rot", 3.0, 12),
        );
    }
    if ch.flag("xf_has_scale") {
        m *= Matrix4::new_nonuniform_scaling(&Vector3::new(
            ch.float("xf_s", 0.5, 2.0, 6),
            ch.float("xf_s", 0.5, 2.0, 6),
            ch.float("xf_s", 0.5, 2.0, 6),
        ));
    }
    if ch.odds("xf_mirror", 1, 5) {
        // a reflection of one axis (negative determinant)
        let mut d = Vector3::new(1.0, 1.0, 1.0);
        d[ch.choose("xf_mirror_axis", 3) as usize] = -1.0;
        m *= Matrix4::new_nonuniform_scaling(&d);
    }
    if ch.flag("xf_has_translation") {
        m = Matrix4::new_translation(&Vector3::new(
            ch.float_sym("xf_t", 2.0, 8),
            ch.float_sym("xf_t", 2.0, 8),
            ch.float_sym("xf_t", 2.0, 8),
        )) * m;
    }
    if ch.odds("xf_has_projective_row", 1, 3) {
        m[(3, 0)] = ch.float_sym("xf_p", 0.05, 2);
        m[(3, 1)] = ch.float_sym("xf_p", 0.05, 2);
        m[(3, 2)] = ch.float_sym("xf_p", 0.05, 2);
        if ch.odds("xf_w", 1, 4) {
            m[(3, 3)] = *ch.pick("xf_w_v", &[0.5f32, 2.0, 1.25]);
        }
    } else if ch.odds("xf_strong_perspective", 1, 4) {
        // a camera-style perspective along z strong enough that part of the
        // sampled space lies beyond the vanishing plane (w < 0); the probe
        // points of such a run are placed on one side of it, |w| >= 0.5
        // (see `c14_backend`)
        m[(3, 2)] = *ch.pick("xf_pz", &[1.0f32, -1.0, 0.5, -0.5]);
    } else if ch.odds("xf_homogeneous_scale", 1, 4) {
        // bottom row [0, 0, 0, w], w != 1: affine, but the divide matters
        m[(3, 3)] = *ch.pick("xf_w_only", &[2.0f32, 0.5, 1.5, -1.0, -2.0]);
    }
    Some(m)
}

fn close(a: f32, b: f32) -> bool {
    if a.is_nan() || b.is_nan() {
        return a.is_nan() && b.is_nan();
    }
    if a == b {
        return true;
    }
    (a - b).abs() <= 1e-4 * a.abs().max(b.abs()).max(1.0)
}

struct C14<'a> {
    vf: &'a VarFunc,
    ctx: Context,
    root: Node,
    vars: Vec<Var>,
    xf: Option<Matrix4<f32>>,
}

impl C14<'_> {
    fn world(&self, p: [f32; 3]) -> [f32; 3] {
        match &self.xf {
            Some(m) => {
                let q = m.transform_point(&Point3::new(p[0], p[1], p[2]));
                [q.x, q.y, q.z]
            }
            None => p,
        }
    }
    /// The reference: Context::eval with an explicit HashMap<Var, f32>
    fn reference(&self, p: [f32; 3], values: &[f32]) -> f32 {
        let q = self.world(p);
        let mut m: HashMap<Var, f32> = HashMap::new();
        m.insert(Var::X, q[0]);
        m.insert(Var::Y, q[1]);
        m.insert(Var::Z, q[2]);
        for (v, val) in self.vars.iter().zip(values) {
            m.insert(*v, *val);
        }
        self.ctx.eval(self.root, &m).unwrap()
    }
    /// f64 dual gradient with respect to the untransformed position
    fn dual(&self, p: [f32; 3], values: &[f32]) -> Option<(f64, [f64; 3])> {
        let unit = [[1.0, 0.0, 0.0], [0.0, 1.0, 0.0], [0.0, 0.0, 1.0]];
        self.dual_seeded(p, values, &unit, &[])
    }
    /// The three derivative lanes of the result when the position components
    /// carry the derivative seeds `sp` and variable k carries `sv[k]` (zero
    /// if absent): what gradient evaluation must return for such inputs
    fn dual_seeded(
        &self,
        p: [f32; 3],
        values: &[f32],
        sp: &[[f64; 3]; 3],
        sv: &[[f64; 3]],
    ) -> Option<(f64, [f64; 3])> {
        let pos = [p[0] as f64, p[1] as f64, p[2] as f64];
        let (x, y, z) = match &self.xf {
            None => (
                Dual::<3> { v: pos[0], d: sp[0] },
                Dual::<3> { v: pos[1], d: sp[1] },
                Dual::<3> { v: pos[2], d: sp[2] },
            ),
            Some(m) => {
                let mut rows = [Dual::<3>::c(0.0); 4];
                for (r, row) in rows.iter_mut().enumerate() {
                    let mut v = m[(r, 3)] as f64;
                    let mut dv = [0.0; 3];
                    for c in 0..3 {
                        v += m[(r, c)] as f64 * pos[c];
                        for l in 0..3 {
                            dv[l] += m[(r, c)] as f64 * sp[c][l];
                        }
                    }
                    *row = Dual { v, d: dv };
                }
                let div = |a: Dual<3>, b: Dual<3>| {
                    let mut out = Dual::<3>::c(a.v / b.v);
                    for c in 0..3 {
                        out.d[c] = (a.d[c] * b.v - a.v * b.d[c]) / (b.v * b.v);
                    }
                    out
                };
                (div(rows[0], rows[3]), div(rows[1], rows[3]), div(rows[2], rows[3]))
            }
        };
        let vars: Vec<Dual<3>> = values
            .iter()
            .enumerate()
            .map(|(k, v)| Dual {
                v: *v as f64,
                d: sv.get(k).copied().unwrap_or([0.0; 3]),
            })
            .collect();
        let r = eval_dual(&self.vf.dag, x, y, z, &vars);
        if !r.supported || !(r.tie_margin > 1e-3) {
            return None;
        }
        let g = r.vals[self.vf.root];
        if !g.v.is_finite() || g.d.iter().any(|d| !d.is_finite()) {
            return None;
        }
        Some((g.v, g.d))
    }
}

/// Shape-level evaluator objects, kept across all shapes of one run: binding
/// must depend on the tape at hand, not on what the evaluator saw before
struct Evals<F: Function> {
    pe: ShapeTracingEval<F::PointEval>,
    ie: ShapeTracingEval<F::IntervalEval>,
    fe: ShapeBulkEval<F::FloatSliceEval>,
    ge: ShapeBulkEval<F::GradSliceEval>,
    /// simplification workspace and function storage handed from one shape's
    /// child to the next shape's simplification (as the renderers' workers do)
    ws: F::Workspace,
    fstash: Vec<F::Storage>,
}

impl<F: Function + Clone> Evals<F> {
    fn new() -> Self {
        Evals {
            pe: Shape::<F>::new_point_eval(),
            ie: Shape::<F>::new_interval_eval(),
            fe: Shape::<F>::new_float_slice_eval(),
            ge: Shape::<F>::new_grad_slice_eval(),
            ws: Default::default(),
            fstash: vec![],
        }
    }
}

fn c14_backend<F: Function + MathFunction + Clone>(
    st: &Shared,
    rep: &mut RunReport,
    c: &C14,
    evs: &mut Evals<F>,
) {
    let ch = |f: &mut dyn FnMut(&mut Chooser) -> u32| -> u32 {
        f(&mut st.borrow_mut().ch)
    };
    let shape = match rt::catch(|| Shape::<F>::new(&c.ctx, c.root)) {
        Ok(Ok(s)) => s,
        Ok(Err(e)) => {
            rep.violate("C14", "shape_build_error", e.to_string());
            return;
        }
        Err(p) => {
            rep.violate("C14", "shape_build_panic", p);
            return;
        }
    };
    let nvars = c.vf.nvars;
    // the values supplied on this visit: mostly the shape's distinct defaults;
    // sometimes exactly zero (what a grown scratch array is padded with) or
    // the tail of a per-sample array that an earlier call bound to the same
    // variable, so that "already holds this value" shortcuts in kept
    // evaluators meet stale contents
    let values: Vec<f32> = c
        .vf
        .values
        .iter()
        .map(|v| match ch(&mut |c| c.choose("val_kind", 10)) {
            0 => 0.0,
            1 => *v * (1.0 + ch(&mut |c| c.choose("val_tail", 12)) as f32 / 8.0),
            2 => -0.0,
            _ => *v,
        })
        .collect();
    let values = &values;

    // supply order: a drawn permutation, plus extras that the function does
    // not mention
    let mut order: Vec<usize> = (0..nvars).collect();
    for i in (1..order.len()).rev() {
        let j = ch(&mut |c| c.choose("supply_shuffle", i as u32 + 1)) as usize;
        order.swap(i, j);
    }
    let nextra = ch(&mut |c| c.choose("extras", 4)) as usize;
    let mut sv = ShapeVars::<f32>::new();
    let mut extras = vec![];
    for e in 0..nextra {
        extras.push(Var::new());
        if e % 2 == 0 {
            sv.insert(extras[e].index().unwrap(), -777.0 - e as f32);
        }
    }
    // a variable supplied twice: `insert` documents map semantics (the later
    // value replaces the earlier one and the earlier one is handed back)
    let twice = if nvars > 0 && ch(&mut |c| c.choose("supplied_twice", 4)) == 0 {
        Some(order[ch(&mut |c| c.choose("supplied_twice_which", nvars as u32)) as usize])
    } else {
        None
    };
    if let Some(k) = twice {
        sv.insert(c.vars[k].index().unwrap(), -4242.5);
        rep.count("fault.variable_supplied_twice", 1);
    }
    for k in &order {
        let prev = sv.insert(c.vars[*k].index().unwrap(), values[*k]);
        rep.checked_oracle += 1;
        if prev != if twice == Some(*k) { Some(-4242.5) } else { None } {
            rep.violate(
                "C14",
                "shape_vars_insert_previous_value",
                format!("ShapeVars::insert handed back {prev:?} for variable {k} (supplied twice: {})", twice == Some(*k)),
            );
        }
    }
    for e in 0..nextra {
        if e % 2 == 1 {
            sv.insert(extras[e].index().unwrap(), -777.0 - e as f32);
        }
    }
    rep.count("fault.supply_order_permuted", 1);
    rep.count("fault.extra_vars_supplied", nextra as u64);

    // probe points
    // batch length drawn per visit: kept bulk evaluators see batches grow and
    // shrink between shapes (and the missing-variable probe uses length 1)
    let npts = 1 + ch(&mut |c| c.choose("npts", 12)) as usize;
    let pts: Vec<[f32; 3]> = (0..npts)
        .map(|_| {
            let ch = &mut st.borrow_mut().ch;
            [
                ch.float_sym("px", 3.0, 24),
                ch.float_sym("py", 3.0, 24),
                ch.float_sym("pz", 3.0, 24),
            ]
        })
        .collect();
    // strong perspective: w = 1 + pz * z; move the points' z into a band on
    // which w is in [0.5, 2.5] or in [-2.5, -0.5] (drawn per visit)
    let mut pts = pts;
    if let Some(m) = c.xf.as_ref() {
        let pz = m[(3, 2)];
        if pz.abs() >= 0.5 && m[(3, 0)] == 0.0 && m[(3, 1)] == 0.0 {
            // 0: in front of the vanishing plane, 1: beyond it, 2: probe points
            // on both sides, so that the box through them *straddles* the plane
            // w = 0 (added after seeded change C14-p): every point itself has
            // |w| >= 0.5, the box contains points with w = 0, and an interval
            // result must enclose the values at the probe points or be NaN
            let side = ch(&mut |c| c.choose("w_side", 3));
            rep.count(
                match side {
                    1 => "fault.box_beyond_vanishing_plane",
                    2 => "fault.box_straddles_vanishing_plane",
                    _ => "fault.box_under_strong_perspective",
                },
                1,
            );
            for (k, p) in pts.iter_mut().enumerate() {
                let negative_w = match side {
                    0 => false,
                    1 => true,
                    _ => k % 2 == 1,
                };
                let wmid = if negative_w { -1.5f32 } else { 1.5 };
                // z in [-3, 3]  ->  w in wmid +- 1
                let w = wmid + p[2] / 3.0;
                p[2] = (w - m[(3, 3)]) / pz;
            }
        }
    }
    let pts = pts;
    let refs: Vec<f32> = pts.iter().map(|p| c.reference(*p, values)).collect();
    let xf = c.xf.as_ref();

    let check = |rep: &mut RunReport, what: &str, got: f32, want: f32, p: [f32; 3]| {
        rep.checked_oracle += 1;
        if !close(got, want) {
            rep.violate(
                "C14",
                format!("{what}_value"),
                format!(
                    "{what} at {p:?} gives {got}, Context::eval with the variables bound by identity gives {want}"
                ),
            );
        }
    };

    // point evaluation, every entry point
    let r = rt::catch(|| {
        let tape = shape.ez_point_tape();
        let ev = &mut evs.pe;
        let mut out = vec![];
        for p in &pts {
            let a = ev
                .eval_raw(&tape, p[0], p[1], p[2], xf, &sv)
                .map(|v| v.0);
            let b = match xf {
                Some(m) => ev
                    .eval_with_transform_and_vars(&tape, p[0], p[1], p[2], m, &sv)
                    .map(|v| v.0),
                None => {
                    ev.eval_with_vars(&tape, p[0], p[1], p[2], &sv).map(|v| v.0)
                }
            };
            out.push((a.map_err(|e| e.to_string()), b.map_err(|e| e.to_string())));
        }
        // no-vars entry point: only legal when there are no variables
        let novars = match xf {
            Some(m) => ev
                .eval_with_transform(&tape, pts[0][0], pts[0][1], pts[0][2], m)
                .map(|v| v.0),
            None => ev
                .eval(&tape, pts[0][0], pts[0][1], pts[0][2])
                .map(|v| v.0),
        };
        (out, novars.map_err(|e| matches!(e, ShapeTracingEvalError::MissingVar(_))))
    });
    match r {
        Err(p) => rep.violate("C14", "point_eval_panic", p),
        Ok((out, novars)) => {
            for (k, (a, b)) in out.into_iter().enumerate() {
                match (a, b) {
                    (Ok(a), Ok(b)) => {
                        check(rep, "point_eval_raw", a, refs[k], pts[k]);
                        check(rep, "point_eval_with_vars", b, refs[k], pts[k]);
                    }
                    (a, b) => rep.violate(
                        "C14",
                        "point_eval_error_with_all_vars_supplied",
                        format!("{a:?} {b:?}"),
                    ),
                }
            }
            match novars {
                Ok(v) if nvars == 0 => {
                    check(rep, "point_eval_novars", v, refs[0], pts[0])
                }
                Ok(v) => rep.violate(
                    "C14",
                    "missing_var_not_reported",
                    format!("eval without variables returned {v} for a function of {nvars} variables"),
                ),
                Err(is_missing) => {
                    if nvars == 0 || !is_missing {
                        rep.violate(
                            "C14",
                            "unexpected_error_without_vars",
                            format!("nvars={nvars}"),
                        );
                    }
                }
            }
        }
    }

    // a missing variable is an error, for every evaluator kind
    if nvars > 0 {
        let miss = ch(&mut |c| c.choose("missing", nvars as u32)) as usize;
        let mut sv2 = ShapeVars::<f32>::new();
        for k in &order {
            if *k != miss {
                sv2.insert(c.vars[*k].index().unwrap(), values[*k]);
            }
        }
        // unrelated extra variables must not make up for the missing one
        for (e, x) in extras.iter().enumerate() {
            sv2.insert(x.index().unwrap(), -555.0 - e as f32);
        }
        rep.count("fault.missing_var", 1);
        let want = c.vars[miss].index().unwrap();
        let nmiss = *[1usize, 0, 1, 3, 9, 0]
            .get(ch(&mut |c| c.choose("missing_batch_len", 6)) as usize)
            .unwrap();
        if nmiss == 0 {
            rep.count("op.missing_var_with_empty_batch", 1);
        }
        let r = rt::catch(|| {
            let p = pts[0];
            let pe = &mut evs.pe;
            let a = match pe.eval_raw(&shape.ez_point_tape(), p[0], p[1], p[2], xf, &sv2) {
                Err(ShapeTracingEvalError::MissingVar(m)) => m.var == want,
                _ => false,
            };
            let ie = &mut evs.ie;
            let b = match ie.eval_raw(
                &shape.ez_interval_tape(),
                Interval::new(p[0], p[0] + 1.0),
                Interval::new(p[1], p[1] + 1.0),
                Interval::new(p[2], p[2] + 1.0),
                xf,
                &sv2,
            ) {
                Err(ShapeTracingEvalError::MissingVar(m)) => m.var == want,
                _ => false,
            };
            let fe = &mut evs.fe;
            // the batch length is drawn, an empty batch included (added after
            // seeded change C14-v): a missing variable is an error whatever
            // the number of samples
            let xs = vec![p[0]; nmiss];
            let ys = vec![p[1]; nmiss];
            let zs = vec![p[2]; nmiss];
            let cc = match fe.eval_raw(
                &shape.ez_float_slice_tape(),
                &xs,
                &ys,
                &zs,
                xf,
                ShapeBulkEval::<F::FloatSliceEval>::var_value(&sv2),
            ) {
                Err(ShapeBulkEvalError::MissingVar(m)) => m.var == want,
                _ => false,
            };
            let ge = &mut evs.ge;
            let gxs: Vec<Grad> = xs.iter().map(|v| Grad::new(*v, 1.0, 0.0, 0.0)).collect();
            let gys: Vec<Grad> = ys.iter().map(|v| Grad::new(*v, 0.0, 1.0, 0.0)).collect();
            let gzs: Vec<Grad> = zs.iter().map(|v| Grad::new(*v, 0.0, 0.0, 1.0)).collect();
            let dd = match ge.eval_raw(
                &shape.ez_grad_slice_tape(),
                &gxs,
                &gys,
                &gzs,
                xf,
                ShapeBulkEval::<F::GradSliceEval>::var_value(&sv2),
            ) {
                Err(ShapeBulkEvalError::MissingVar(m)) => m.var == want,
                _ => false,
            };
            let bound = shape.bind(&sv2).is_err();
            (a, b, cc && dd, bound)
        });
        match r {
            Err(p) => rep.violate("C14", "missing_var_panic", p),
            Ok((a, b, cc, bound)) => {
                if !(a && b && cc && bound) {
                    rep.violate(
                        "C14",
                        "missing_var_not_reported",
                        format!("point={a} interval={b} float_and_grad_slice={cc} (batch of {nmiss}) bind={bound} (true = reported the missing variable)"),
                    );
                }
            }
        }
    }

    // interval evaluation encloses the reference at contained points; the
    // trace feeds a simplification that must keep the variable numbering
    let lo = [
        pts.iter().map(|p| p[0]).fold(f32::INFINITY, f32::min),
        pts.iter().map(|p| p[1]).fold(f32::INFINITY, f32::min),
        pts.iter().map(|p| p[2]).fold(f32::INFINITY, f32::min),
    ];
    let hi = [
        pts.iter().map(|p| p[0]).fold(f32::NEG_INFINITY, f32::max),
        pts.iter().map(|p| p[1]).fold(f32::NEG_INFINITY, f32::max),
        pts.iter().map(|p| p[2]).fold(f32::NEG_INFINITY, f32::max),
    ];
    let r = rt::catch(|| {
        let tape = shape.ez_interval_tape();
        let ev = &mut evs.ie;
        let (iv, tr) = ev
            .eval_raw(
                &tape,
                Interval::new(lo[0], hi[0]),
                Interval::new(lo[1], hi[1]),
                Interval::new(lo[2], hi[2]),
                xf,
                &sv,
            )
            .expect("all vars supplied");
        (iv, tr.cloned())
    });
    let trace = match r {
        Err(p) => {
            rep.violate("C14", "interval_eval_panic", p);
            None
        }
        Ok((iv, tr)) => {
            if !iv.has_nan() {
                for (k, p) in pts.iter().enumerate() {
                    let v = refs[k];
                    if v.is_nan() {
                        continue;
                    }
                    let slack = 1e-3 * v.abs().max(1.0);
                    rep.checked_oracle += 1;
                    if !(iv.lower() - slack <= v && v <= iv.upper() + slack) {
                        rep.violate(
                            "C14",
                            "interval_does_not_enclose_bound_value",
                            format!(
                                "box {lo:?}..{hi:?} gives {iv:?} but the value at {p:?} with variables bound by identity is {v}"
                            ),
                        );
                    }
                }
            }
            tr
        }
    };

    // many-point evaluation: fixed variables and per-sample variable arrays
    let xs: Vec<f32> = pts.iter().map(|p| p[0]).collect();
    let ys: Vec<f32> = pts.iter().map(|p| p[1]).collect();
    let zs: Vec<f32> = pts.iter().map(|p| p[2]).collect();
    // per-sample values: sample k scales variable values by (1 + k/8)
    let scale = |k: usize| 1.0 + k as f32 / 8.0;
    let mut sva = ShapeVars::<Vec<f32>>::new();
    for k in &order {
        sva.insert(
            c.vars[*k].index().unwrap(),
            (0..npts).map(|s| values[*k] * scale(s)).collect(),
        );
    }
    let refs_arr: Vec<f32> = (0..npts)
        .map(|s| {
            let vals: Vec<f32> = values.iter().map(|v| v * scale(s)).collect();
            c.reference(pts[s], &vals)
        })
        .collect();
    // a re-bind after the per-sample arrays: some variables get exactly the
    // value their array ended with, the others keep theirs
    let values3: Vec<f32> = values
        .iter()
        .map(|v| {
            if ch(&mut |c| c.choose("rebind_tail", 2)) == 0 {
                *v * scale(npts - 1)
            } else {
                *v
            }
        })
        .collect();
    let mut sv3 = ShapeVars::<f32>::new();
    for k in &order {
        sv3.insert(c.vars[*k].index().unwrap(), values3[*k]);
    }
    let refs3: Vec<f32> =
        pts.iter().map(|p| c.reference(*p, &values3)).collect();
    let r = rt::catch(|| {
        let tape = shape.ez_float_slice_tape();
        let ev = &mut evs.fe;
        let a = match xf {
            Some(m) => ev
                .eval_with_transform_and_vars(&tape, &xs, &ys, &zs, m, &sv)
                .map(|v| v.to_vec()),
            None => ev.eval_with_vars(&tape, &xs, &ys, &zs, &sv).map(|v| v.to_vec()),
        };
        let b = match xf {
            Some(m) => ev
                .eval_with_transform_and_var_arrays(&tape, &xs, &ys, &zs, m, &sva)
                .map(|v| v.to_vec()),
            None => ev
                .eval_with_var_arrays(&tape, &xs, &ys, &zs, &sva)
                .map(|v| v.to_vec()),
        };
        let c3 = match xf {
            Some(m) => ev
                .eval_with_transform_and_vars(&tape, &xs, &ys, &zs, m, &sv3)
                .map(|v| v.to_vec()),
            None => ev.eval_with_vars(&tape, &xs, &ys, &zs, &sv3).map(|v| v.to_vec()),
        };
        (a, b.and_then(|b| c3.map(|c3| (b, c3))))
    });
    match r {
        Err(p) => rep.violate("C14", "float_slice_panic", p),
        Ok((Ok(a), Ok((b, c3)))) => {
            if a.len() != npts || b.len() != npts || c3.len() != npts {
                rep.violate(
                    "C14",
                    "float_slice_length",
                    format!("{} / {} results for {npts} samples", a.len(), b.len()),
                );
            } else {
                for k in 0..npts {
                    check(rep, "float_slice_vars", a[k], refs[k], pts[k]);
                    check(rep, "float_slice_var_arrays", b[k], refs_arr[k], pts[k]);
                    check(rep, "float_slice_vars_rebound", c3[k], refs3[k], pts[k]);
                }
            }
        }
        Ok((a, b)) => rep.violate(
            "C14",
            "float_slice_error_with_all_vars_supplied",
            format!("{:?} {:?}", a.err(), b.err()),
        ),
    }

    // gradient evaluation: value lane and derivative lanes.  The positions
    // usually carry the unit-axis seeds (what the renderers pass); one visit in
    // three they carry drawn seeds (a curve tangent, a parameter derivative),
    // and in half of those the variables are gradient-valued too
    let seed_mode = ch(&mut |c| c.choose("grad_seed_mode", 6));
    let mut draw_seed = || -> [f64; 3] {
        let mut s = [0.0; 3];
        for l in s.iter_mut() {
            *l = *[0.0f64, 1.0, -1.0, 0.5, 2.0, -0.25]
                .get(ch(&mut |c| c.choose("grad_seed", 6)) as usize)
                .unwrap();
        }
        s
    };
    let sp: [[f64; 3]; 3] = if seed_mode >= 4 {
        [draw_seed(), draw_seed(), draw_seed()]
    } else {
        [[1.0, 0.0, 0.0], [0.0, 1.0, 0.0], [0.0, 0.0, 1.0]]
    };
    let svs: Vec<[f64; 3]> = if seed_mode == 5 {
        (0..nvars).map(|_| draw_seed()).collect()
    } else {
        vec![]
    };
    if seed_mode >= 4 {
        rep.count("op.gradient_with_drawn_seeds", 1);
    }
    let g_of = |v: f32, s: &[f64; 3]| Grad::new(v, s[0] as f32, s[1] as f32, s[2] as f32);
    let gx: Vec<Grad> = xs.iter().map(|v| g_of(*v, &sp[0])).collect();
    let gy: Vec<Grad> = ys.iter().map(|v| g_of(*v, &sp[1])).collect();
    let gz: Vec<Grad> = zs.iter().map(|v| g_of(*v, &sp[2])).collect();
    // gradient-valued variables, bound by identity like the plain ones
    let mut svg = ShapeVars::<Grad>::new();
    if seed_mode == 5 {
        for k in 0..nvars {
            svg.insert(c.vars[k].index().unwrap(), g_of(values[k], &svs[k]));
        }
    }
    let r = rt::catch(|| {
        let tape = shape.ez_grad_slice_tape();
        let ev = &mut evs.ge;
        match (xf, seed_mode == 5) {
            (Some(m), false) => ev
                .eval_with_transform_and_vars(&tape, &gx, &gy, &gz, m, &sv)
                .map(|v| v.to_vec()),
            (None, false) => ev.eval_with_vars(&tape, &gx, &gy, &gz, &sv).map(|v| v.to_vec()),
            (Some(m), true) => ev
                .eval_with_transform_and_vars(&tape, &gx, &gy, &gz, m, &svg)
                .map(|v| v.to_vec()),
            (None, true) => ev.eval_with_vars(&tape, &gx, &gy, &gz, &svg).map(|v| v.to_vec()),
        }
    });
    match r {
        Err(p) => rep.violate("C14", "grad_slice_panic", p),
        Ok(Err(e)) => rep.violate(
            "C14",
            "grad_slice_error_with_all_vars_supplied",
            e.to_string(),
        ),
        Ok(Ok(g)) => {
            for k in 0..npts.min(g.len()) {
                check(rep, "grad_slice", g[k].v, refs[k], pts[k]);
                // the scale of the comparison comes from the unit-seed
                // gradient, so that cancelling seeds do not shrink the band
                let unit = c.dual(pts[k], values);
                if let (Some((_, d)), Some((_, du))) =
                    (c.dual_seeded(pts[k], values, &sp, &svs), unit)
                {
                    let smax = sp
                        .iter()
                        .chain(svs.iter())
                        .flat_map(|s| s.iter())
                        .fold(1.0f64, |a, b| a.max(b.abs()));
                    let s = du
                        .iter()
                        .chain(d.iter())
                        .map(|v| v.abs())
                        .fold(0.0f64, f64::max)
                        .max(1e-2)
                        * smax;
                    // with gradient-valued variables the scale also depends on
                    // the derivatives with respect to the variables, which the
                    // unit pass does not see: compare only well-scaled cases
                    let got = [g[k].dx as f64, g[k].dy as f64, g[k].dz as f64];
                    rep.count("oracle.gradients_checked", 1);
                    let tol = if seed_mode == 5 { 5e-3 * s + 1e-3 } else { 2e-3 * s + 1e-4 };
                    if (0..3).any(|a| !((got[a] - d[a]).abs() <= tol)) {
                        rep.violate(
                            "C14",
                            "grad_slice_derivative",
                            format!(
                                "at {:?}: derivative {got:?}, f64 dual of the bound expression {d:?} (position seeds {sp:?}, variable seeds {svs:?})",
                                pts[k]
                            ),
                        );
                    }
                }
            }
        }
    }

    // simplification may drop variables but never renumbers them
    if let Some(tr) = trace {
        rep.count("op.simplify_then_eval", 1);
        // fresh objects, or the kept workspace and the storage recycled from
        // the child of whatever shape this run simplified before
        let reuse = ch(&mut |c| c.choose("simp_storage", 2)) == 1;
        if reuse && !evs.fstash.is_empty() {
            rep.count("fault.simplify_into_storage_of_other_shape", 1);
        }
        let r = rt::catch(|| {
            let child = if reuse {
                shape
                    .simplify(&tr, evs.fstash.pop().unwrap_or_default(), &mut evs.ws)
                    .expect("trace from evaluator")
            } else {
                shape.ez_simplify(&tr).expect("trace from evaluator")
            };
            let tape = child.ez_point_tape();
            let ev = &mut evs.pe;
            let a: Vec<f32> = pts
                .iter()
                .map(|p| {
                    ev.eval_raw(&tape, p[0], p[1], p[2], xf, &sv)
                        .expect("all vars supplied")
                        .0
                })
                .collect();
            let ft = child.ez_float_slice_tape();
            let fe = &mut evs.fe;
            let b = fe
                .eval_raw(
                    &ft,
                    &xs,
                    &ys,
                    &zs,
                    xf,
                    ShapeBulkEval::<F::FloatSliceEval>::var_array(&sva),
                )
                .expect("all vars supplied")
                .to_vec();
            drop((tape, ft));
            if reuse {
                evs.fstash.extend(child.recycle());
            }
            (a, b)
        });
        match r {
            Err(p) => rep.violate("C14", "simplified_eval_panic", p),
            Ok((a, b)) => {
                for k in 0..npts {
                    check(rep, "simplified_point", a[k], refs[k], pts[k]);
                    // the per-sample variable values move the sample out of
                    // the traced box of variable values, so only sample 0
                    // (scale 1) is inside the traced domain
                    if k == 0 {
                        check(rep, "simplified_float_slice", b[k], refs_arr[k], pts[k]);
                    }
                }
            }
        }
    }
}

/// The solver as a consumer of the variable-to-slot map (one of the places the
/// property names): every equation is `u_k - sum c_j * f_j`, one free `u_k`
/// per equation and fixed `f_j` met in a drawn order per equation, so the
/// per-tape slot of a fixed variable differs between equations.  All values
/// are small dyadic numbers, the system is decoupled with unit diagonal, and
/// the only thing the answer depends on is which value each variable
/// identity was bound to.
fn run_c14_solver(st: &Shared, mut rep: RunReport) -> RunReport {
    rep.count("op.solver_binding_run", 1);
    rep.count("fault.fresh_hash_keys_and_var_ids", 1);
    let (nfix, nfree, backend) = {
        let ch = &mut st.borrow_mut().ch;
        (
            1 + ch.choose("sb_nfix", 6) as usize,
            1 + ch.choose("sb_nfree", 4) as usize,
            ch.choose("sb_backend", 3),
        )
    };
    // identities: fresh variables, sometimes the axes too
    let mut fixed: Vec<Var> = vec![];
    for k in 0..nfix {
        let axis = st.borrow_mut().ch.odds("sb_axis", 1, 5);
        let v = match (axis, k) {
            (true, 0) => Var::X,
            (true, 1) => Var::Y,
            (true, 2) => Var::Z,
            _ => Var::new(),
        };
        fixed.push(v);
    }
    let free: Vec<Var> = (0..nfree).map(|_| Var::new()).collect();
    // distinct dyadic values
    let fvals: Vec<f32> = (0..nfix)
        .map(|k| {
            let q = st.borrow_mut().ch.choose("sb_val", 8) as f32;
            (k as f32 + 1.0) * 2.0 + q * 0.125
        })
        .collect();
    let mut ctx = Context::new();
    let mut eqs: Vec<Node> = vec![];
    let mut expect: Vec<f32> = vec![];
    let mut slot_sig = 0u64;
    for k in 0..nfree {
        let ch = &mut st.borrow_mut().ch;
        // a drawn non-empty subset of the fixed variables in a drawn order
        let mut terms: Vec<usize> =
            (0..nfix).filter(|_| ch.odds("sb_use", 2, 3)).collect();
        if terms.is_empty() {
            terms.push(ch.choose("sb_force", nfix as u32) as usize);
        }
        for a in (1..terms.len()).rev() {
            let b = ch.choose("sb_shuffle", a as u32 + 1) as usize;
            terms.swap(a, b);
        }
        let free_first = ch.flag("sb_free_first");
        let mut acc: Option<Node> = None;
        let mut want = 0.0f32;
        let u = if free_first { Some(ctx.var(free[k])) } else { None };
        for j in &terms {
            let c = [1.0f32, -1.0, 0.5, 2.0][ch.choose("sb_coef", 4) as usize];
            want += c * fvals[*j];
            let v = ctx.var(fixed[*j]);
            let t = ctx.mul(v, c).unwrap();
            acc = Some(match acc {
                None => t,
                Some(p) => ctx.add(p, t).unwrap(),
            });
            slot_sig = mix(slot_sig, mix(k as u64, *j as u64));
        }
        let mut acc = acc.unwrap();
        if want == 0.0 {
            // a zero solution component makes the solver crawl (DESIGN 11.3)
            acc = ctx.add(acc, 0.5).unwrap();
            want = 0.5;
        }
        let u = u.unwrap_or_else(|| ctx.var(free[k]));
        eqs.push(ctx.sub(u, acc).unwrap());
        expect.push(want);
    }
    let start: Vec<f32> = (0..nfree)
        .map(|_| st.borrow_mut().ch.float_sym("sb_start", 4.0, 16))
        .collect();
    st.borrow_mut().log("sb_sig", slot_sig, nfix as u64);
    if nfix >= 2 && nfree >= 2 {
        rep.sigs.push(mix(slot_sig, 0x50f7));
    }
    rep.sample = format!(
        "solver-binding backend={backend} fixed={nfix} free={nfree} values={fvals:?} expect={expect:?}"
    );
    fn go<F: Function + MathFunction>(
        ctx: &Context,
        eqs: &[Node],
        fixed: &[Var],
        fvals: &[f32],
        free: &[Var],
        start: &[f32],
        extra: bool,
    ) -> Result<Result<HashMap<Var, f32>, String>, String> {
        rt::catch(|| {
            let eqs: Vec<F> =
                eqs.iter().map(|n| F::new(ctx, &[*n]).unwrap()).collect();
            let mut params: HashMap<Var, Parameter> = HashMap::new();
            for (v, x) in fixed.iter().zip(fvals) {
                params.insert(*v, Parameter::Fixed(*x));
            }
            for (v, x) in free.iter().zip(start) {
                params.insert(*v, Parameter::Free(*x));
            }
            if extra {
                // supplied but mentioned nowhere: ignored
                params.insert(Var::new(), Parameter::Fixed(1234.5));
            }
            solve(&eqs, &params).map_err(|e| e.to_string())
        })
    }
    let extra = st.borrow_mut().ch.odds("sb_extra", 1, 4);
    let r = match backend {
        0 => go::<VmFunction>(&ctx, &eqs, &fixed, &fvals, &free, &start, extra),
        1 => go::<JitFunction>(&ctx, &eqs, &fixed, &fvals, &free, &start, extra),
        _ => go::<GenericVmFunction<3>>(
            &ctx, &eqs, &fixed, &fvals, &free, &start, extra,
        ),
    };
    rep.evaluations += 1;
    rep.steps += 1;
    match r {
        Err(p) => rep.violate("C14", "solver_binding_panic", p),
        Ok(Err(e)) => rep.violate("C14", "solver_binding_error", e),
        Ok(Ok(sol)) => {
            let mut h = 0u64;
            for (k, v) in free.iter().enumerate() {
                rep.checked_oracle += 1;
                let got = sol.get(v).copied().unwrap_or(f32::NAN);
                h = mix(h, got.to_bits() as u64);
                let tol = 1e-3 * (1.0 + expect[k].abs());
                if !((got - expect[k]).abs() <= tol) {
                    rep.violate(
                        "C14",
                        "solver_binds_variable_by_slot_not_identity",
                        format!(
                            "free variable {k}: solved {got}, but with every fixed variable at the value supplied under its identity the equation gives {} (fixed values {fvals:?})",
                            expect[k]
                        ),
                    );
                    break;
                }
            }
            st.borrow_mut().log("sb_solution", h, 0);
        }
    }
    rep.finish(st)
}

/// The mesher as a consumer of the variable-to-slot map: a union of spheres
/// whose centres and radii are variables (met in a drawn order, supplied in
/// another) is meshed, and every vertex must lie within a cell diagonal of the
/// surface that the expression has with every variable bound by identity.
/// (The renderers' use of the map is decided by C06/C07, whose brute-force
/// reference binds by identity too; nothing else checks the mesher's.)
fn run_c14_mesher(st: &Shared, mut rep: RunReport) -> RunReport {
    rep.count("op.mesher_binding_run", 1);
    rep.count("fault.fresh_hash_keys_and_var_ids", 1);
    let (nsph, depth, backend) = {
        let ch = &mut st.borrow_mut().ch;
        (
            1 + ch.choose("mb_spheres", 2) as usize,
            4 + ch.choose("mb_depth", 2) as u8,
            ch.choose("mb_backend", 3),
        )
    };
    // well separated values: a mix-up moves the surface by much more than a
    // cell
    let mut centres = vec![-0.35f32, -0.2, -0.05, 0.1, 0.25, 0.32];
    let mut radii = vec![0.3f32, 0.45, 0.58];
    {
        let ch = &mut st.borrow_mut().ch;
        for a in (1..centres.len()).rev() {
            let b = ch.choose("mb_cshuf", a as u32 + 1) as usize;
            centres.swap(a, b);
        }
        for a in (1..radii.len()).rev() {
            let b = ch.choose("mb_rshuf", a as u32 + 1) as usize;
            radii.swap(a, b);
        }
    }
    // parameters: (value, Some(var) | None = constant)
    let mut params: Vec<(f32, Option<Var>)> = vec![];
    for s in 0..nsph {
        for k in 0..4 {
            let v = if k < 3 { centres[s * 3 + k] } else { radii[s] };
            let is_var = st.borrow_mut().ch.odds("mb_is_var", 3, 4);
            params.push((v, if is_var { Some(Var::new()) } else { None }));
        }
    }
    let mut ctx = Context::new();
    let axes = [ctx.x(), ctx.y(), ctx.z()];
    let mut root: Option<Node> = None;
    for s in 0..nsph {
        let leaf = |ctx: &mut Context, i: usize| -> Node {
            match params[s * 4 + i] {
                (_, Some(v)) => ctx.var(v),
                (c, None) => ctx.constant(c),
            }
        };
        // axis order and operand order drawn: they decide the order in which
        // the compiler first meets each variable
        let mut order = [0usize, 1, 2];
        for a in (1..3).rev() {
            let b = st.borrow_mut().ch.choose("mb_axshuf", a as u32 + 1) as usize;
            order.swap(a, b);
        }
        let radius_first = st.borrow_mut().ch.flag("mb_radius_first");
        let r0 = if radius_first { Some(leaf(&mut ctx, 3)) } else { None };
        let mut sum: Option<Node> = None;
        for k in order {
            let c = leaf(&mut ctx, k);
            let d = if st.borrow_mut().ch.flag("mb_flip") {
                ctx.sub(c, axes[k]).unwrap()
            } else {
                ctx.sub(axes[k], c).unwrap()
            };
            let q = ctx.square(d).unwrap();
            sum = Some(match sum {
                None => q,
                Some(p) => ctx.add(p, q).unwrap(),
            });
        }
        let dist = ctx.sqrt(sum.unwrap()).unwrap();
        let r = r0.unwrap_or_else(|| leaf(&mut ctx, 3));
        let f = ctx.sub(dist, r).unwrap();
        root = Some(match root {
            None => f,
            Some(p) => ctx.min(p, f).unwrap(),
        });
    }
    let root = root.unwrap();
    let nvars = params.iter().filter(|p| p.1.is_some()).count();
    rep.sample = format!(
        "mesher-binding backend={backend} spheres={nsph} depth={depth} vars={nvars} params={:?}",
        params.iter().map(|p| (p.0, p.1.is_some())).collect::<Vec<_>>()
    );
    // supply order: drawn, with unrelated extras
    let mut supply: Vec<usize> =
        (0..params.len()).filter(|i| params[*i].1.is_some()).collect();
    for a in (1..supply.len()).rev() {
        let b = st.borrow_mut().ch.choose("mb_supply", a as u32 + 1) as usize;
        supply.swap(a, b);
    }
    let mut sv = ShapeVars::<f32>::new();
    if st.borrow_mut().ch.flag("mb_extra") {
        sv.insert(Var::new().index().unwrap(), 55.5);
    }
    for i in &supply {
        sv.insert(params[*i].1.unwrap().index().unwrap(), params[*i].0);
    }
    let reference = |p: [f32; 3]| -> f64 {
        (0..nsph)
            .map(|s| {
                let q = &params[s * 4..s * 4 + 4];
                let d = (0..3)
                    .map(|k| (p[k] as f64 - q[k].0 as f64).powi(2))
                    .sum::<f64>()
                    .sqrt();
                d - q[3].0 as f64
            })
            .fold(f64::INFINITY, f64::min)
    };
    fn go<F: Function + MathFunction + Clone + fidget_core::render::RenderHints>(
        ctx: &Context,
        root: Node,
        sv: &ShapeVars<f32>,
        depth: u8,
    ) -> Result<Vec<[f32; 3]>, String> {
        rt::catch(|| {
            let shape = Shape::<F>::new(ctx, root).unwrap();
            let bound = shape.bind(sv).expect("all variables supplied");
            let settings = fidget_mesh::Settings {
                depth,
                world_to_model: Matrix4::identity(),
                threads: None,
                cancel: Default::default(),
            };
            let o = fidget_mesh::Octree::build(&bound, &settings)
                .expect("never cancelled");
            let m = o.walk_dual();
            let mut used = vec![false; m.vertices.len()];
            for t in &m.triangles {
                for i in 0..3 {
                    used[t[i]] = true;
                }
            }
            m.vertices
                .iter()
                .zip(used)
                .filter(|(_, u)| *u)
                .map(|(v, _)| [v.x, v.y, v.z])
                .collect()
        })
    }
    let r = match backend {
        0 => go::<VmFunction>(&ctx, root, &sv, depth),
        1 => go::<JitFunction>(&ctx, root, &sv, depth),
        _ => go::<GenericVmFunction<3>>(&ctx, root, &sv, depth),
    };
    rep.evaluations += 1;
    rep.steps += 1;
    match r {
        Err(p) => rep.violate("C14", "mesher_binding_panic", p),
        Ok(verts) => {
            let cell = 2.0 / (1u32 << depth) as f64;
            let tol = 1.25 * cell * 3f64.sqrt() + 1e-3;
            rep.checked_oracle += 1;
            st.borrow_mut().log("mb_mesh", verts.len() as u64, depth as u64);
            if verts.len() < 8 {
                rep.violate(
                    "C14",
                    "mesher_binds_variable_by_slot_not_identity",
                    format!(
                        "{} vertices for spheres that lie inside the meshed region when every variable has the value supplied under its identity",
                        verts.len()
                    ),
                );
            } else if let Some(v) =
                verts.iter().find(|v| !(reference(**v).abs() <= tol))
            {
                rep.violate(
                    "C14",
                    "mesher_binds_variable_by_slot_not_identity",
                    format!(
                        "vertex {v:?} is {:.4} away from the surface of the expression with variables bound by identity (cell diagonal tolerance {tol:.4})",
                        reference(*v)
                    ),
                );
            }
        }
    }
    rep.finish(st)
}

pub fn run_c14(st: &Shared, _tier: Tier) -> RunReport {
    let mut rep = RunReport::default();
    if st.borrow_mut().ch.odds("c14_solver_consumer", 1, 8) {
        return run_c14_solver(st, rep);
    }
    if st.borrow_mut().ch.odds("c14_mesher_consumer", 1, 16) {
        return run_c14_mesher(st, rep);
    }
    // 1-3 functions per run; later ones usually mention the same variables
    // and axes as the first, met in a different traversal order, and all are
    // evaluated with the same evaluator objects
    let (vfs, xf, backend) = {
        let ch = &mut st.borrow_mut().ch;
        let first = gen_varfunc(ch, None);
        let mut vfs = vec![first];
        let more = ch.choose("more_shapes", 3) as usize;
        for _ in 0..more {
            let same = ch.odds("same_vars", 3, 4);
            let vf = gen_varfunc(ch, if same { Some(&vfs[0]) } else { None });
            vfs.push(vf);
        }
        let xf = gen_transform(ch);
        let backend = ch.choose("backend", 3);
        (vfs, xf, backend)
    };
    // identities and hash keys of this run come from the getrandom seam
    let maxv = vfs.iter().map(|v| v.nvars).max().unwrap();
    let vars: Vec<Var> = (0..maxv).map(|_| Var::new()).collect();
    rep.sample = format!(
        "backend={backend} shapes={} nvars={:?} transform={} expr0={}",
        vfs.len(),
        vfs.iter().map(|v| v.nvars).collect::<Vec<_>>(),
        match &xf {
            None => "none".to_string(),
            Some(m) => format!("{:?}", m.as_slice()),
        },
        vfs[0].dag.describe(vfs[0].root)
    );
    rep.count("fault.fresh_hash_keys_and_var_ids", 1);
    if vfs.len() > 1 {
        rep.count("fault.evaluator_reused_across_shapes", vfs.len() as u64 - 1);
    }
    let cs: Vec<C14> = vfs
        .iter()
        .map(|vf| {
            let mut ctx = Context::new();
            let nodes = vf.dag.lower(&mut ctx, &vars[..vf.nvars]);
            C14 {
                vf,
                root: nodes[vf.root],
                ctx,
                vars: vars[..vf.nvars].to_vec(),
                xf,
            }
        })
        .collect();
    // signature: the actual slot assignments this run's randomness produced
    let mut sig = 0u64;
    for c in &cs {
        let f = VmFunction::new(&c.ctx, &[c.root]).unwrap();
        for (v, i) in f.vars().iter() {
            let k = match v {
                Var::X => 1000,
                Var::Y => 1001,
                Var::Z => 1002,
                v => c.vars.iter().position(|q| *q == v).unwrap() as u64,
            };
            sig = mix(sig, mix(k, i as u64));
        }
    }
    st.borrow_mut().log("var_order_sig", sig, 0);
    if maxv >= 2 {
        rep.sigs.push(sig);
    }
    fn go<F: Function + MathFunction + Clone>(
        st: &Shared,
        rep: &mut RunReport,
        cs: &[C14],
    ) {
        let mut evs = Evals::<F>::new();
        // visit the shapes in order, then the first one again (A-B-A)
        let mut order: Vec<usize> = (0..cs.len()).collect();
        if cs.len() > 1 {
            order.push(0);
        }
        for i in order {
            rep.evaluations += 1;
            rep.steps += 1;
            c14_backend::<F>(st, rep, &cs[i], &mut evs);
            if !rep.violations.is_empty() {
                break;
            }
        }
    }
    match backend {
        0 => go::<VmFunction>(st, &mut rep, &cs),
        1 => go::<JitFunction>(st, &mut rep, &cs),
        _ => go::<GenericVmFunction<3>>(st, &mut rep, &cs),
    }
    let d = rep.checked_oracle;
    st.borrow_mut().log("c14_done", d, rep.violations.len() as u64);
    rep.finish(st)
}

////////////////////////////////////////////////////////////////////////////////
// C19

struct System {
    n: usize,
    free: Vec<bool>,
    xstar: Vec<f32>,
    /// rows of (column, coefficient)
    rows: Vec<Vec<(usize, f32)>>,
    b: Vec<f32>,
    exact: bool,
    /// per term: written as `a/2 * v + a/2 * v` (the same parameter twice in
    /// one equation; halving is exact, so the system is unchanged)
    split: Vec<Vec<bool>>,
    /// every coefficient and right-hand side was multiplied by this power of
    /// two (exact in f32): the same well-conditioned system in other units
    scale: f32,
    /// the unknowns in other units: every solution component (free and fixed)
    /// was multiplied by this power of two and every coefficient divided by it
    /// (right-hand sides unchanged; exact in f32)
    xscale: f32,
    /// fewer equations than free parameters (still consistent): the solution
    /// is not unique, so only residual, key set and fixed-point are required
    under: bool,
    /// index of the equation that pins one *large* free unknown (2^24..2^30
    /// times a small dyadic factor, the other unknowns being of order one):
    /// that equation and that unknown get bounds of their own
    big_row: Option<usize>,
}

fn gen_system(ch: &mut Chooser) -> System {
    let n = match ch.choose("n_kind", 4) {
        0 => 1 + ch.choose("n_small", 4),
        1 | 2 => 1 + ch.choose("n_mid", 12),
        _ => 1 + ch.choose("n_big", 40),
    } as usize;
    // exact systems: coefficients k/8 and solutions k/4, so that every
    // equation evaluates to exactly zero at the solution in f32
    let exact = ch.odds("exact", 1, 3);
    let mut free: Vec<bool> = (0..n)
        .map(|_| match ch.choose("free_kind", 4) {
            0 => false,
            _ => true,
        })
        .collect();
    if ch.odds("all_free", 1, 6) {
        free.iter_mut().for_each(|f| *f = true);
    }
    if !free.iter().any(|f| *f) {
        let k = ch.choose("force_free", n as u32) as usize;
        free[k] = true;
    }
    let xstar: Vec<f32> = (0..n)
        .map(|_| {
            if exact {
                // multiples of 1/4, never exactly zero: towards a zero
                // component the solver's iterates shrink geometrically
                // without ever comparing equal, and its exit criteria let it
                // crawl for minutes before returning the (correct) result
                // (DESIGN 11.3 item 10)
                let v = ch.float_sym("xstar_e", 2.0, 8);
                if v == 0.0 { 0.25 } else { v }
            } else {
                ch.float_sym("xstar", 2.0, 50)
            }
        })
        .collect();
    let mut rows: Vec<Vec<(usize, f32)>> = vec![];
    let coef = |ch: &mut Chooser, mag: f32| -> f32 {
        if exact {
            // +-1/8
            let k = ch.choose("coef_e", 3);
            [0.125f32, -0.125, 0.125][k as usize] * (mag / 0.2).min(1.0)
        } else {
            let v = ch.float_sym("coef", mag, 8);
            if v == 0.0 { mag } else { v }
        }
    };
    for i in 0..n {
        if !free[i] {
            continue;
        }
        let d = if exact {
            [1.0f32, 1.5, 2.0][ch.choose("diag_e", 3) as usize]
        } else {
            ch.float("diag", 1.0, 2.0, 8)
        };
        let mut row = vec![(i, d)];
        let noff = ch.choose("noff", 4) as usize;
        for _ in 0..noff.min(n - 1) {
            let j = ch.choose("offcol", n as u32) as usize;
            if row.iter().any(|(c, _)| *c == j) {
                continue;
            }
            row.push((j, coef(ch, 0.2)));
        }
        // drawn term order inside the equation
        for a in (1..row.len()).rev() {
            let b = ch.choose("term_shuffle", a as u32 + 1) as usize;
            row.swap(a, b);
        }
        rows.push(row);
    }
    // a few extra consistent rows
    let extra = ch.choose("extra_rows", 4) as usize;
    for _ in 0..extra {
        let mut row = vec![];
        let terms = 1 + ch.choose("extra_terms", 3) as usize;
        for _ in 0..terms {
            let j = ch.choose("extracol", n as u32) as usize;
            if row.iter().any(|(c, _): &(usize, f32)| *c == j) {
                continue;
            }
            row.push((j, coef(ch, 0.2)));
        }
        rows.push(row);
    }
    // sometimes an equation is listed twice (consistent, rank unchanged)
    if !rows.is_empty() && ch.odds("duplicate_row", 1, 6) {
        let k = ch.choose("duplicate_which", rows.len() as u32) as usize;
        // verbatim, or as a scalar multiple (a power of two: exact)
        let factor = *ch.pick("duplicate_factor", &[1.0f32, 1.0, 2.0, -0.5]);
        let r: Vec<(usize, f32)> = rows[k].iter().map(|(j, a)| (*j, *a * factor)).collect();
        rows.push(r);
    }
    // fewer equations than unknowns (added after seeded change C19-t): one
    // system in six drops some of its equations; what is left is consistent
    // (the right-hand sides are computed from x* below) and every remaining
    // row is as well conditioned as before, but the solution is a whole affine
    // subspace
    let mut under = false;
    if rows.len() >= 2 && ch.odds("underdetermined", 1, 6) {
        let drop = 1 + ch.choose("under_drop", (rows.len() as u32) / 2);
        for _ in 0..drop {
            let k = ch.choose("under_which", rows.len() as u32) as usize;
            rows.remove(k);
        }
        // (duplicates and extra rows can keep the *count* of equations up
        // although the rank went down: every such system is treated as
        // underdetermined)
        under = true;
    }
    // equations in different units: one system in five multiplies each of its
    // equations by 1, 2 or 4 (exact; the condition number grows by at most 4)
    if ch.odds("row_units", 1, 5) {
        for r in rows.iter_mut() {
            let f = *ch.pick("row_unit", &[1.0f32, 2.0, 4.0, 1.0, 4.0]);
            for t in r.iter_mut() {
                t.1 *= f;
            }
        }
    }
    // drawn equation order
    for a in (1..rows.len()).rev() {
        let b = ch.choose("row_shuffle", a as u32 + 1) as usize;
        rows.swap(a, b);
    }
    let b: Vec<f32> = rows
        .iter()
        .map(|r| {
            r.iter()
                .map(|(j, a)| *a as f64 * xstar[*j] as f64)
                .sum::<f64>() as f32
        })
        .collect();
    // the whole system in other units: a common power-of-two factor on every
    // coefficient and right-hand side changes neither the solution nor the
    // conditioning, and is exact in f32
    let scale: f32 = match ch.choose("scale_kind", 6) {
        4 => 0.5f32.powi(1 + ch.choose("scale_down", 20) as i32),
        5 => 2f32.powi(1 + ch.choose("scale_up", 13) as i32),
        _ => 1.0,
    };
    let mut rows = rows;
    let mut b = b;
    if scale != 1.0 {
        for r in rows.iter_mut() {
            for t in r.iter_mut() {
                t.1 *= scale;
            }
        }
        for v in b.iter_mut() {
            *v *= scale;
        }
    }
    // the unknowns in other units (added after seeded change C19-m): x = s * y
    // with s a power of two; conditioning and right-hand sides are unchanged,
    // the solution and every step of the iteration shrink or grow by s
    let xscale: f32 = match ch.choose("xscale_kind", 6) {
        4 => 0.5f32.powi(1 + ch.choose("xscale_down", 30) as i32),
        5 => 2f32.powi(1 + ch.choose("xscale_up", 10) as i32),
        _ => 1.0,
    };
    let mut xstar = xstar;
    if xscale != 1.0 {
        for r in rows.iter_mut() {
            for t in r.iter_mut() {
                t.1 /= xscale;
            }
        }
        for v in xstar.iter_mut() {
            *v *= xscale;
        }
    }
    // sometimes the caller's parameter map also holds free parameters that no
    // equation mentions: they must still get a value ("exactly the free
    // parameters"); nothing constrains them, so only their presence is checked
    let mut n = n;
    let mut free = free;
    let mut xstar = xstar;
    if ch.odds("unused_free_params", 1, 5) {
        let extra = 1 + ch.choose("unused_free_count", 2) as usize;
        for _ in 0..extra {
            n += 1;
            // mostly free (must get a value); sometimes fixed (must not)
            free.push(!ch.odds("unused_is_fixed", 1, 4));
            xstar.push(xscale * if exact { 0.5 } else { ch.float_sym("unused_val", 2.0, 8) });
        }
    }
    // one unknown on another scale than the rest (added after seeded change
    // C19-u): a further free parameter of magnitude 2^24..2^30 with an
    // equation of its own (`d * v = d * 2^k`, exact), everything else as it
    // was.  The system stays as well conditioned as before (the new column is
    // orthogonal to the others); what changes is that "the largest unknown"
    // and "the unknown that still has to move" are no longer the same one.
    let mut big_row = None;
    let mut rows = rows;
    let mut b = b;
    if !under && ch.odds("one_large_unknown", 1, 8) {
        let k = 24 + ch.choose("large_log2", 7) as i32;
        let v = 2f32.powi(k) * if ch.flag("large_negative") { -1.0 } else { 1.0 };
        let d = *ch.pick("large_coef", &[1.0f32, 2.0, 0.5]);
        n += 1;
        free.push(true);
        // in the system's units: coefficients carry scale / xscale, unknowns
        // xscale (all powers of two: exact), so that this equation's gradient
        // is of the same size as the others'
        xstar.push(v * xscale);
        rows.push(vec![(n - 1, d * scale / xscale)]);
        b.push(d * scale * v);
        big_row = Some(rows.len() - 1);
    }
    let split: Vec<Vec<bool>> = rows
        .iter()
        .map(|r| r.iter().map(|_| ch.odds("split_term", 1, 8)).collect())
        .collect();
    System {
        n,
        free,
        xstar,
        rows,
        b,
        exact,
        split,
        scale,
        xscale,
        under,
        big_row,
    }
}

fn residuals(sys: &System, x: &[f64], b: &[f32]) -> f64 {
    sys.rows
        .iter()
        .zip(b)
        .enumerate()
        .filter(|(i, _)| Some(*i) != sys.big_row)
        .map(|(_, (r, b))| {
            (r.iter().map(|(j, a)| *a as f64 * x[*j]).sum::<f64>() - *b as f64)
                .abs()
        })
        .fold(0.0, f64::max)
}

fn c19_solve<F: Function + MathFunction>(
    sys: &System,
    ctx: &Context,
    eq_nodes: &[Node],
    vars: &[Var],
    start: &[f32],
    fixed_vals: &[f32],
) -> Result<Result<HashMap<Var, f32>, String>, String> {
    rt::catch(|| {
        // an equation listed twice is passed as two handles on ONE function
        // object (clones share the tape), not as two separately built ones
        let mut built: Vec<(Node, F)> = vec![];
        let eqs: Vec<F> = eq_nodes
            .iter()
            .map(|n| {
                if let Some((_, f)) = built.iter().find(|(m, _)| m == n) {
                    return f.clone();
                }
                let f = F::new(ctx, &[*n]).unwrap();
                built.push((*n, f.clone()));
                f
            })
            .collect();
        let mut params: HashMap<Var, Parameter> = HashMap::new();
        for i in 0..sys.n {
            params.insert(
                vars[i],
                if sys.free[i] {
                    Parameter::Free(start[i])
                } else {
                    Parameter::Fixed(fixed_vals[i])
                },
            );
        }
        solve(&eqs, &params).map_err(|e| e.to_string())
    })
}

/// Equations as expression nodes: sum a_ij * v_j - b_i
fn build_eqs(ctx: &mut Context, sys: &System, vars: &[Var], b: &[f32]) -> Vec<Node> {
    sys.rows
        .iter()
        .zip(b)
        .enumerate()
        .map(|(ri, (r, b))| {
            let mut acc: Option<Node> = None;
            let mut late: Vec<Node> = vec![];
            for (ti, (j, a)) in r.iter().enumerate() {
                let v = ctx.var(vars[*j]);
                let t = if sys.split[ri][ti] {
                    // the second half is added at the end of the sum
                    let h = ctx.mul(v, *a * 0.5).unwrap();
                    let v2 = ctx.var(vars[*j]);
                    late.push(ctx.mul(*a * 0.5, v2).unwrap());
                    h
                } else {
                    ctx.mul(v, *a).unwrap()
                };
                acc = Some(match acc {
                    None => t,
                    Some(p) => ctx.add(p, t).unwrap(),
                });
            }
            let mut acc = acc.unwrap();
            for t in late {
                acc = ctx.add(acc, t).unwrap();
            }
            ctx.sub(acc, *b).unwrap()
        })
        .collect()
}

/// A *dense* consistent system of the same shape as `sys` (same parameters,
/// same free set, same number of equations): every equation mentions every
/// parameter.  Solved on the same thread just before the real system, it is
/// what a caller's previous, unrelated `solve` leaves behind in anything the
/// solver keeps between calls.
fn decoy_system(sys: &System) -> System {
    let free_cols: Vec<usize> = (0..sys.n).filter(|i| sys.free[*i]).collect();
    let mut rows: Vec<Vec<(usize, f32)>> = vec![];
    for ri in 0..sys.rows.len() {
        let d = free_cols[ri % free_cols.len()];
        let row: Vec<(usize, f32)> = (0..sys.n)
            .map(|j| {
                let c = if j == d {
                    2.0
                } else {
                    0.03125 * (1 + (ri + 2 * j) % 3) as f32 / sys.n.max(1) as f32
                };
                (j, c * sys.scale / sys.xscale)
            })
            .collect();
        rows.push(row);
    }
    // another solution than the real system's
    let xstar: Vec<f32> = sys.xstar.iter().map(|v| -0.5 * *v + 0.375 * sys.xscale).collect();
    let b: Vec<f32> = rows
        .iter()
        .map(|r| r.iter().map(|(j, a)| *a as f64 * xstar[*j] as f64).sum::<f64>() as f32)
        .collect();
    let split = rows.iter().map(|r| vec![false; r.len()]).collect();
    System {
        n: sys.n,
        free: sys.free.clone(),
        xstar,
        rows,
        b,
        exact: false,
        split,
        scale: sys.scale,
        xscale: sys.xscale,
        under: false,
        big_row: None,
    }
}

pub fn run_c19(st: &Shared, _tier: Tier) -> RunReport {
    let mut rep = RunReport::default();
    let sys = gen_system(&mut st.borrow_mut().ch);
    let mut vars: Vec<Var> = (0..sys.n).map(|_| Var::new()).collect();
    // one system in four uses the axis variables as parameters too
    if st.borrow_mut().ch.odds("axes_as_parameters", 1, 4) {
        let mut axes = vec![Var::X, Var::Y, Var::Z];
        let ch = &mut st.borrow_mut().ch;
        for i in 0..sys.n {
            if axes.is_empty() {
                break;
            }
            if ch.odds("axis_here", 1, 3) {
                let k = ch.choose("which_axis", axes.len() as u32) as usize;
                vars[i] = axes.swap_remove(k);
            }
        }
        rep.count("op.axes_used_as_parameters", 1);
    }
    let vars = vars;
    let nfree = sys.free.iter().filter(|f| **f).count();
    rep.sample = format!(
        "n={} free={} rows={} exact={} scale={:e} xscale={:e} rows[0]={:?}",
        sys.n,
        nfree,
        sys.rows.len(),
        sys.exact,
        sys.scale,
        sys.xscale,
        sys.rows.first()
    );
    rep.count("fault.fresh_hash_keys_and_var_ids", 1);
    if std::env::var("VERIF_DEBUG").is_ok() {
        eprintln!(
            "C19 system: n={} free={:?}\n xstar={:?}\n rows={:?}\n b={:?}",
            sys.n, sys.free, sys.xstar, sys.rows, sys.b
        );
    }
    let mut ctx = Context::new();
    let build = |ctx: &mut Context, b: &[f32]| -> Vec<Node> { build_eqs(ctx, &sys, &vars, b) };
    let eq_nodes = build(&mut ctx, &sys.b);

    // start: the solution itself (fixed-point clause) or a perturbation
    let at_solution = {
        let ch = &mut st.borrow_mut().ch;
        sys.exact && ch.flag("start_at_solution")
    };
    // exact systems also start *partly* at the solution (added after seeded
    // change C19-r): a drawn subset of the parameters starts exactly at its
    // solution value, so that some equations are exactly satisfied at the
    // start while others are not
    let partly = sys.exact && !at_solution && st.borrow_mut().ch.odds("start_partly_at_solution", 1, 2);
    if partly {
        rep.count("op.start_partly_at_exact_solution", 1);
    }
    let start: Vec<f32> = (0..sys.n)
        .map(|i| {
            if at_solution || (partly && st.borrow_mut().ch.odds("start_here_at_solution", 2, 3)) {
                sys.xstar[i]
            } else {
                sys.xstar[i] + sys.xscale * st.borrow_mut().ch.float_sym("start_d", 1.0, 8)
            }
        })
        .collect();
    let bmax = sys
        .b
        .iter()
        .enumerate()
        .filter(|(i, _)| Some(*i) != sys.big_row)
        .map(|(_, v)| v.abs())
        .fold(0.0f32, f32::max) as f64;
    if sys.big_row.is_some() {
        rep.count("op.one_unknown_on_a_larger_scale", 1);
    }
    // a rank-deficient (underdetermined) system is consistent and solvable but
    // not "well-conditioned": the unchanged solver leaves residuals up to a
    // few 1e-3 there, so only a gross failure (20 times the bound) is flagged
    let tol = 1e-3 * (sys.scale as f64 + bmax) * if sys.under { 20.0 } else { 1.0 };
    if sys.xscale < 1.0 {
        rep.count("op.unknowns_scaled_down", 1);
    } else if sys.xscale > 1.0 {
        rep.count("op.unknowns_scaled_up", 1);
    }
    if sys.scale < 1.0 {
        rep.count("op.system_scaled_down", 1);
    } else if sys.scale > 1.0 {
        rep.count("op.system_scaled_up", 1);
    }

    // signature: the column order this run's hash keys produced
    let sig = {
        let mut params: HashMap<Var, u32> = HashMap::new();
        for (i, v) in vars.iter().enumerate() {
            params.insert(*v, i as u32);
        }
        let mut h = 0u64;
        for (_, i) in &params {
            h = mix(h, *i as u64);
        }
        mix(h, nfree as u64)
    };
    st.borrow_mut().log("col_order_sig", sig, 0);
    if nfree >= 2 {
        rep.sigs.push(sig);
    }

    let check = |rep: &mut RunReport,
                     what: &str,
                     res: Result<Result<HashMap<Var, f32>, String>, String>,
                     fixed_vals: &[f32],
                     b: &[f32]|
     -> Option<Vec<f64>> {
        rep.evaluations += 1;
        rep.steps += 1;
        let sol = match res {
            Err(p) => {
                rep.violate("C19", format!("{what}_panic"), p);
                return None;
            }
            Ok(Err(e)) => {
                rep.violate(
                    "C19",
                    format!("{what}_error_on_solvable_system"),
                    e,
                );
                return None;
            }
            Ok(Ok(s)) => s,
        };
        // exactly the free parameters
        let mut ok = sol.len() == nfree;
        for i in 0..sys.n {
            if sys.free[i] != sol.contains_key(&vars[i]) {
                ok = false;
            }
        }
        rep.checked_oracle += 1;
        if !ok {
            rep.violate(
                "C19",
                format!("{what}_keys_not_exactly_free_set"),
                format!("{} keys returned for {nfree} free of {}", sol.len(), sys.n),
            );
            return None;
        }
        let x: Vec<f64> = (0..sys.n)
            .map(|i| {
                if sys.free[i] {
                    sol[&vars[i]] as f64
                } else {
                    fixed_vals[i] as f64
                }
            })
            .collect();
        if let Some(br) = sys.big_row {
            // the large unknown's own equation, relative to its own size
            let (j, a) = sys.rows[br][0];
            let rb = (a as f64 * x[j] - b[br] as f64).abs();
            if !(rb <= 1e-3 * (b[br].abs() as f64)) {
                rep.violate(
                    "C19",
                    format!("{what}_residual"),
                    format!("equation of the large unknown: |residual| {rb:e} for right-hand side {:e}", b[br]),
                );
                return None;
            }
        }
        let r = residuals(&sys, &x, b);
        rep.checked_oracle += 1;
        if !(r <= tol) {
            rep.violate(
                "C19",
                format!("{what}_residual"),
                format!(
                    "max |residual| {r:e} > {tol:e} (n={} free={nfree} rows={} coefficient scale {:e}, unknowns in units of {:e})",
                    sys.n,
                    sys.rows.len(),
                    sys.scale,
                    sys.xscale
                ),
            );
            return None;
        }
        Some(x)
    };

    // the caller's previous solve on this thread (added after seeded change
    // C19-o): an unrelated dense system of the same shape, solved first with
    // the same backend; its result is only required to exist
    let with_decoy = st.borrow_mut().ch.odds("previous_solve_on_this_thread", 1, 3);
    let decoy = decoy_system(&sys);
    let decoy_nodes = build_eqs(&mut ctx, &decoy, &vars, &decoy.b);
    let decoy_start: Vec<f32> = decoy.xstar.iter().map(|v| *v + 0.25 * sys.xscale).collect();
    if with_decoy {
        rep.count("fault.unrelated_solve_of_the_same_shape_just_before", 1);
        let _ = c19_solve::<VmFunction>(&decoy, &ctx, &decoy_nodes, &vars, &decoy_start, &decoy.xstar);
    }
    let r_vm = c19_solve::<VmFunction>(&sys, &ctx, &eq_nodes, &vars, &start, &sys.xstar);
    let vm_raw = r_vm.as_ref().ok().and_then(|r| r.as_ref().ok()).cloned();
    let x_vm = check(&mut rep, "vm", r_vm, &sys.xstar, &sys.b);
    if with_decoy {
        let _ = c19_solve::<JitFunction>(&decoy, &ctx, &decoy_nodes, &vars, &decoy_start, &decoy.xstar);
    }
    let r_jit = c19_solve::<JitFunction>(&sys, &ctx, &eq_nodes, &vars, &start, &sys.xstar);
    let x_jit = check(&mut rep, "jit", r_jit, &sys.xstar, &sys.b);
    if sys.under {
        rep.count("op.underdetermined_system", 1);
    }
    let cmp = if sys.under { (None, None) } else { (x_vm.as_ref(), x_jit.as_ref()) };
    if let (Some(a), Some(b)) = cmp {
        // parameters that no equation mentions are unconstrained: the solver
        // may leave them anywhere, so they are not compared
        let big_col = sys.big_row.map(|br| sys.rows[br][0].0);
        let mentioned: Vec<bool> = (0..sys.n)
            .map(|i| {
                Some(i) != big_col
                    && sys.rows.iter().any(|r| r.iter().any(|(j, _)| *j == i))
            })
            .collect();
        let d = a
            .iter()
            .zip(b)
            .zip(&mentioned)
            .filter(|(_, m)| **m)
            .map(|((p, q), _)| (p - q).abs())
            .fold(0.0, f64::max);
        rep.checked_oracle += 1;
        if !(d <= 1e-3 * sys.xscale as f64 * (1.0 + bmax / sys.scale as f64)) {
            rep.violate(
                "C19",
                "backends_disagree",
                format!("VM and JIT solutions differ by {d:e}"),
            );
        }
    }
    if let Some(x) = &x_vm {
        let h = x.iter().fold(0u64, |h, v| mix(h, (*v as f32).to_bits() as u64));
        st.borrow_mut().log("c19_solution", h, 0);
    }
    // already exactly satisfied => the start is returned unchanged
    if at_solution {
        rep.count("op.start_at_exact_solution", 1);
        if let Some(sol) = &vm_raw {
            for i in 0..sys.n {
                if sys.free[i] {
                    let got = sol.get(&vars[i]).copied().unwrap_or(f32::NAN);
                    rep.checked_oracle += 1;
                    if got.to_bits() != start[i].to_bits() {
                        rep.violate(
                            "C19",
                            "start_not_returned_when_already_satisfied",
                            format!(
                                "parameter {i}: start {} returned {got}",
                                start[i]
                            ),
                        );
                        break;
                    }
                }
            }
        }
    }
    // fixed parameters are constants at their given values: move one fixed
    // value; the right-hand sides are unchanged, so the returned solution
    // must satisfy the system in which that constant has the new value
    let fixed_idx: Vec<usize> = (0..sys.n).filter(|i| !sys.free[*i]).collect();
    if !fixed_idx.is_empty() {
        let k = fixed_idx[st
            .borrow_mut()
            .ch
            .choose("move_fixed", fixed_idx.len() as u32)
            as usize];
        let mut fv = sys.xstar.clone();
        fv[k] += 0.75 * sys.xscale;
        rep.count("op.fixed_value_moved", 1);
        // the moved system must stay consistent: recompute what the free
        // variables' rows need.  Rows that do not mention a free variable
        // (extra rows over fixed parameters only) would become inconsistent,
        // so b is re-derived for the new constant
        let x2: Vec<f64> = (0..sys.n).map(|i| fv[i] as f64).collect();
        let b2: Vec<f32> = sys
            .rows
            .iter()
            .map(|r| r.iter().map(|(j, a)| *a as f64 * x2[*j]).sum::<f64>() as f32)
            .collect();
        let eq2 = build(&mut ctx, &b2);
        let r = c19_solve::<VmFunction>(&sys, &ctx, &eq2, &vars, &start, &fv);
        // with b2 = A * (xstar with the moved constant) the free variables
        // must come back to xstar; had the solver ignored the new constant
        // (or treated it as free) the residual against (free=result,
        // fixed=new value) would be large
        if let Some(x) = check(&mut rep, "vm_fixed_moved", r, &fv, &b2) {
            // and it must differ from a solve that pretends the constant did
            // not move whenever that constant matters
            let _ = x;
        }
    }
    rep.finish(st)
}

#[allow(dead_code)]
fn unused(_: Ex, _: &[f32]) {
    let _ = eval_f32;
}
