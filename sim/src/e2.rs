//! E2 reuse-history simulation (C10, C04).
//!
//! One run is a seeded history of build / evaluate / simplify / recycle
//! operations performed by several logical workers that keep their evaluator
//! objects, workspaces and stashes of recycled storage across operations and
//! hand storage to each other.  Two worlds are advanced in lock step:
//!
//! * the *dirty* world uses the reused objects (the system under test);
//! * the *clean* world performs the same call with fresh objects only (the
//!   reference model of C10).
//!
//! The C04 oracle compares every simplified function with its parent on the
//! traced domain, using fresh evaluators so that a reuse defect is not
//! mis-attributed.
use crate::chooser::{Chooser, mix};
use crate::common::*;
use crate::gen_::{Dag, FuncGen, eval_f32, gen_func};
use crate::rt::{self, Shared};
use fidget_core::{
    Context,
    context::Node,
    eval::{
        BulkEvaluator, Function, MathFunction, Tape, TracingEvaluator,
    },
    render::RenderHandle,
    shape::{Shape, ShapeBulkEval, ShapeTracingEval, ShapeVars},
    types::{Grad, Interval},
    var::Var,
    vm::{GenericVmFunction, VmData, VmTrace, VmWorkspace},
};
use fidget_jit::JitFunction;

type PTape<F> = <<F as Function>::PointEval as TracingEvaluator>::Tape;
type ITape<F> = <<F as Function>::IntervalEval as TracingEvaluator>::Tape;
type FTape<F> = <<F as Function>::FloatSliceEval as BulkEvaluator>::Tape;
type GTape<F> = <<F as Function>::GradSliceEval as BulkEvaluator>::Tape;

#[derive(Copy, Clone, Debug, PartialEq, Eq)]
pub enum Mode {
    C10,
    C04,
}

pub(crate) fn canon(v: f32) -> u32 {
    if v.is_nan() { 0x7fc0_0000 } else { v.to_bits() }
}

#[derive(Clone, Debug, PartialEq)]
pub(crate) enum Res {
    Point(Vec<u32>),
    Interval(Vec<[u32; 2]>),
    Float(Vec<Vec<u32>>),
    Grad(Vec<Vec<[u32; 4]>>),
    Err(String),
}

/// Per-point results of the three point-wise evaluator kinds (per output)
#[derive(Clone, Debug, PartialEq)]
struct PtRes {
    point: Vec<u32>,
    float: Vec<u32>,
    grad: Vec<[u32; 4]>,
}

impl Res {
    pub(crate) fn digest(&self) -> u64 {
        let mut h = 7u64;
        match self {
            Res::Point(v) => v.iter().for_each(|x| h = mix(h, *x as u64)),
            Res::Interval(v) => v.iter().for_each(|x| {
                h = mix(h, ((x[0] as u64) << 32) | x[1] as u64)
            }),
            Res::Float(v) => v
                .iter()
                .for_each(|r| r.iter().for_each(|x| h = mix(h, *x as u64))),
            Res::Grad(v) => v.iter().for_each(|r| {
                r.iter()
                    .for_each(|x| x.iter().for_each(|y| h = mix(h, *y as u64)))
            }),
            Res::Err(_) => h = mix(h, 0xE44),
        }
        h
    }
}

pub(crate) fn ev_point<F: Function>(
    ev: &mut F::PointEval,
    tape: &PTape<F>,
    vars: &[f32],
) -> (Res, Option<F::Trace>) {
    match ev.eval(tape, vars) {
        Ok((out, tr)) => {
            if out.len() != tape.output_count() {
                return (
                    Res::Err(format!(
                        "{} outputs, tape advertises {}",
                        out.len(),
                        tape.output_count()
                    )),
                    None,
                );
            }
            (
                Res::Point(out.iter().map(|v| canon(*v)).collect()),
                tr.cloned(),
            )
        }
        Err(e) => (Res::Err(e.to_string()), None),
    }
}

pub(crate) fn ev_interval<F: Function>(
    ev: &mut F::IntervalEval,
    tape: &ITape<F>,
    vars: &[Interval],
) -> (Res, Option<F::Trace>) {
    match ev.eval(tape, vars) {
        Ok((out, tr)) => {
            if out.len() != tape.output_count() {
                return (
                    Res::Err(format!(
                        "{} outputs, tape advertises {}",
                        out.len(),
                        tape.output_count()
                    )),
                    None,
                );
            }
            (
                Res::Interval(
                    out.iter()
                        .map(|v| [canon(v.lower()), canon(v.upper())])
                        .collect(),
                ),
                tr.cloned(),
            )
        }
        Err(e) => (Res::Err(e.to_string()), None),
    }
}

pub(crate) fn ev_float<F: Function>(
    ev: &mut F::FloatSliceEval,
    tape: &FTape<F>,
    vars: &[Vec<f32>],
) -> Res {
    let n = vars.first().map(|v| v.len()).unwrap_or(0);
    match ev.eval(tape, vars) {
        Ok(out) => {
            if out.len() != tape.output_count() {
                return Res::Err(format!(
                    "{} output rows, tape advertises {}",
                    out.len(),
                    tape.output_count()
                ));
            }
            let mut rows = vec![];
            for i in 0..out.len() {
                let r = &out[i];
                if r.len() != n {
                    return Res::Err(format!(
                        "row {i} has {} samples, {n} requested",
                        r.len()
                    ));
                }
                rows.push(r.iter().map(|v| canon(*v)).collect());
            }
            Res::Float(rows)
        }
        Err(e) => Res::Err(e.to_string()),
    }
}

pub(crate) fn ev_grad<F: Function>(
    ev: &mut F::GradSliceEval,
    tape: &GTape<F>,
    vars: &[Vec<Grad>],
) -> Res {
    let n = vars.first().map(|v| v.len()).unwrap_or(0);
    match ev.eval(tape, vars) {
        Ok(out) => {
            if out.len() != tape.output_count() {
                return Res::Err(format!(
                    "{} output rows, tape advertises {}",
                    out.len(),
                    tape.output_count()
                ));
            }
            let mut rows = vec![];
            for i in 0..out.len() {
                let r = &out[i];
                if r.len() != n {
                    return Res::Err(format!(
                        "row {i} has {} samples, {n} requested",
                        r.len()
                    ));
                }
                rows.push(
                    r.iter()
                        .map(|g| {
                            [canon(g.v), canon(g.dx), canon(g.dy), canon(g.dz)]
                        })
                        .collect(),
                );
            }
            Res::Grad(rows)
        }
        Err(e) => Res::Err(e.to_string()),
    }
}

////////////////////////////////////////////////////////////////////////////////

/// The domain a trace was recorded on (per variable slot)
#[derive(Clone, Debug)]
enum Domain {
    Point(Vec<f32>),
    Box(Vec<(f32, f32)>),
}

struct Slot<F: Function> {
    dirty: F,
    clean: F,
    /// Last trace reported for this function (identical in both worlds, or a
    /// C10 violation was already raised), with its domain
    trace: Option<(F::Trace, Domain)>,
    chain: usize,
    proto: usize,
    /// Where this function is known to equal the prototype expression: the
    /// domain of the trace it was simplified with (None = everywhere).
    /// Boxes and points for tracing are drawn inside it, which is the
    /// "chains of simplifications over nested boxes" of the property and
    /// what makes the regular-point rule (evaluated on the prototype
    /// expression) meaningful for a child.
    valid: Option<Domain>,
}

enum Held<F: Function> {
    P(PTape<F>),
    I(ITape<F>),
    Fl(FTape<F>),
    G(GTape<F>),
}

struct Worker<F: Function> {
    pe: F::PointEval,
    ie: F::IntervalEval,
    fe: F::FloatSliceEval,
    ge: F::GradSliceEval,
    ws: F::Workspace,
    sie: ShapeTracingEval<F::IntervalEval>,
    sfe: ShapeBulkEval<F::FloatSliceEval>,
    spe: ShapeTracingEval<F::PointEval>,
    sge: ShapeBulkEval<F::GradSliceEval>,
    tape_stash: Vec<F::TapeStorage>,
    fn_stash: Vec<F::Storage>,
    /// A tape kept alive across later operations, with the clean function it
    /// must keep agreeing with and the dirty handle count marker
    held: Option<(Held<F>, F)>,
}

impl<F: Function> Worker<F> {
    fn new() -> Self {
        Worker {
            pe: F::new_point_eval(),
            ie: F::new_interval_eval(),
            fe: F::new_float_slice_eval(),
            ge: F::new_grad_slice_eval(),
            ws: Default::default(),
            sie: Default::default(),
            sfe: Default::default(),
            spe: Default::default(),
            sge: Default::default(),
            tape_stash: vec![],
            fn_stash: vec![],
            held: None,
        }
    }
}

/// Cross-budget simplification (VM only): `simplify_with::<M>`
pub trait Cross: Function {
    /// A trace of the right length for this function that decides nothing
    /// (`Choice::Both` everywhere), or `None` if the length is not known
    /// (`like`: any trace an evaluator reported for this function)
    fn undecided_trace(&self, like: Option<&Self::Trace>) -> Option<Self::Trace>;
    /// Returns the child's float-slice values at `pts` and its size, or
    /// `None` if this backend has no cross-budget simplification
    fn cross(
        &self,
        trace: &Self::Trace,
        target: u32,
        cs: &mut CrossStash,
        dirty: bool,
        pts: &[Vec<f32>],
    ) -> Option<Result<(Res, usize), String>>;
}

#[derive(Default)]
pub struct CrossStash {
    s2: Vec<VmData<2>>,
    w2: VmWorkspace<2>,
    s3: Vec<VmData<3>>,
    s8: Vec<VmData<8>>,
    s255: Vec<VmData<255>>,
    w3: VmWorkspace<3>,
    w8: VmWorkspace<8>,
    w255: VmWorkspace<255>,
}

/// `cross_target` value that asks for the smallest budget the library's own
/// tests use (`simplify::<2>`); see known finding F8
const TWO_REGISTERS: u32 = 6;

fn cross_one<const N: usize, const M: usize>(
    f: &GenericVmFunction<N>,
    trace: &VmTrace,
    stash: &mut Vec<VmData<M>>,
    ws: &mut VmWorkspace<M>,
    dirty: bool,
    pts: &[Vec<f32>],
) -> Result<(Res, usize), String> {
    let mut fresh_ws = VmWorkspace::<M>::default();
    let (storage, ws) = if dirty {
        (stash.pop().unwrap_or_default(), ws)
    } else {
        (VmData::<M>::default(), &mut fresh_ws)
    };
    let child = rt::catch(|| f.simplify_with::<M>(trace, storage, ws))?
        .map_err(|e| e.to_string())?;
    let size = child.size();
    let tape = child.float_slice_tape(Default::default());
    let mut ev = GenericVmFunction::<M>::new_float_slice_eval();
    let r = rt::catch(|| ev_float::<GenericVmFunction<M>>(&mut ev, &tape, pts))?;
    drop(tape);
    if dirty {
        if let Some(s) = child.recycle() {
            stash.push(s);
        }
    }
    Ok((r, size))
}

impl<const N: usize> Cross for GenericVmFunction<N> {
    fn undecided_trace(&self, _like: Option<&VmTrace>) -> Option<VmTrace> {
        let mut t = VmTrace::default();
        t.resize(self.choice_count(), fidget_core::vm::Choice::Both);
        Some(t)
    }
    fn cross(
        &self,
        trace: &VmTrace,
        target: u32,
        cs: &mut CrossStash,
        dirty: bool,
        pts: &[Vec<f32>],
    ) -> Option<Result<(Res, usize), String>> {
        if target == TWO_REGISTERS {
            return Some(cross_one::<N, 2>(
                self, trace, &mut cs.s2, &mut cs.w2, dirty, pts,
            ));
        }
        Some(match target % 3 {
            0 => cross_one::<N, 3>(self, trace, &mut cs.s3, &mut cs.w3, dirty, pts),
            1 => cross_one::<N, 8>(self, trace, &mut cs.s8, &mut cs.w8, dirty, pts),
            _ => cross_one::<N, 255>(
                self,
                trace,
                &mut cs.s255,
                &mut cs.w255,
                dirty,
                pts,
            ),
        })
    }
}

impl Cross for JitFunction {
    fn undecided_trace(&self, like: Option<&VmTrace>) -> Option<VmTrace> {
        let mut t = like?.clone();
        t.fill(fidget_core::vm::Choice::Both);
        Some(t)
    }
    fn cross(
        &self,
        _trace: &VmTrace,
        _target: u32,
        _cs: &mut CrossStash,
        _dirty: bool,
        _pts: &[Vec<f32>],
    ) -> Option<Result<(Res, usize), String>> {
        None
    }
}

////////////////////////////////////////////////////////////////////////////////

struct Proto {
    ctx: Context,
    nodes: Vec<Node>,
    describe: String,
    dag: Dag,
    vars: Vec<Var>,
    reach: Vec<bool>,
}

struct World<'a, F: Function + MathFunction + Clone + Cross> {
    st: &'a Shared,
    rep: &'a mut RunReport,
    mode: Mode,
    protos: Vec<Proto>,
    slots: Vec<Slot<F>>,
    workers: Vec<Worker<F>>,
    cross: CrossStash,
    all_fresh: bool,
    ops: u64,
}

const VALS: [f32; 12] = [
    0.0, 1.0, -1.0, 0.5, -0.5, 2.0, -2.0, 0.25, 3.0, -0.75, 1.5, -3.0,
];

fn draw_val(ch: &mut Chooser) -> f32 {
    if ch.odds("val_special", 1, 3) {
        *ch.pick("val_s", &VALS)
    } else {
        ch.float_sym("val", 3.0, 60)
    }
}

impl<'a, F: Function + MathFunction + Clone + Cross> World<'a, F> {
    fn ch<R>(&self, f: impl FnOnce(&mut Chooser) -> R) -> R {
        f(&mut self.st.borrow_mut().ch)
    }

    fn violate10(&mut self, clause: &str, detail: String) {
        if self.mode == Mode::C10 {
            self.rep.violate("C10", clause, detail);
        } else {
            self.rep.count("other.c10_oracle_fired_in_c04_mode", 1);
        }
    }
    fn violate04(&mut self, clause: &str, detail: String) {
        if self.mode == Mode::C04 {
            self.rep.violate("C04", clause, detail);
        } else {
            self.rep.count("other.c04_oracle_fired_in_c10_mode", 1);
        }
    }

    fn new_fn(&mut self, proto: usize) {
        let p = &self.protos[proto];
        let d = rt::catch(|| F::new(&p.ctx, &p.nodes));
        let c = rt::catch(|| F::new(&p.ctx, &p.nodes));
        match (d, c) {
            (Ok(Ok(dirty)), Ok(Ok(clean))) => {
                self.slots.push(Slot {
                    dirty,
                    clean,
                    trace: None,
                    chain: 0,
                    proto,
                    valid: None,
                });
            }
            (d, _) => {
                let msg = match d {
                    Err(p) => p,
                    Ok(Err(e)) => e.to_string(),
                    _ => "clean build failed".into(),
                };
                self.violate10("build_failed", msg);
            }
        }
    }

    fn tape_storage(&mut self, w: usize) -> (F::TapeStorage, bool) {
        if !self.all_fresh
            && !self.workers[w].tape_stash.is_empty()
            && self.ch(|c| c.odds("dirty_tape_storage", 3, 4))
        {
            let n = self.workers[w].tape_stash.len() as u32;
            let k = self.ch(|c| c.choose("which_tape_storage", n)) as usize;
            (self.workers[w].tape_stash.swap_remove(k), true)
        } else {
            (Default::default(), false)
        }
    }

    fn dispose<T: Tape<Storage = F::TapeStorage>>(
        &mut self,
        w: usize,
        tape: T,
    ) -> Option<T> {
        // 0: recycle into the stash, 1: hold (caller), 2: drop
        match self.ch(|c| c.choose("dispose", 6)) {
            0..=2 => {
                if let Some(s) = tape.recycle() {
                    self.workers[w].tape_stash.push(s);
                    self.rep.count("fault.tape_storage_recycled", 1);
                }
                None
            }
            3 => Some(tape),
            4 => None,
            _ => {
                // tapes are shared by cloning: one handle is recycled while
                // its sibling stays alive.  Whatever storage comes back is
                // reused for later tapes; the sibling must be unaffected.
                let keep = tape.clone();
                self.rep.count("fault.shared_tape_handle_recycled", 1);
                if let Some(s) = tape.recycle() {
                    self.workers[w].tape_stash.push(s);
                    self.rep.count("probe.shared_tape_gave_storage", 1);
                }
                Some(keep)
            }
        }
    }

    fn draw_inputs(&mut self, nvars: usize) -> Vec<f32> {
        let extra = self.ch(|c| c.choose("extra_vars", 3)) as usize;
        (0..nvars + extra)
            .map(|_| self.ch(draw_val))
            .collect()
    }

    /// Inputs for a tracing evaluation of slot `s`, inside its valid domain
    fn draw_inputs_for(&mut self, s: usize, nvars: usize) -> Vec<f32> {
        let mut v = self.draw_inputs(nvars);
        match self.slots[s].valid.clone() {
            None => (),
            Some(Domain::Point(p)) => {
                for i in 0..nvars.min(p.len()) {
                    v[i] = p[i];
                }
            }
            Some(Domain::Box(b)) => {
                for i in 0..nvars.min(b.len()) {
                    let (lo, hi) = b[i];
                    let t = self.ch(|c| match c.choose("in_t_kind", 4) {
                        0 => 0.0,
                        1 => 1.0,
                        2 => 0.5,
                        _ => c.float("in_t", 0.0, 1.0, 16),
                    });
                    v[i] = (lo + (hi - lo) * t).clamp(lo, hi);
                }
            }
        }
        v
    }

    /// A box for a tracing evaluation of slot `s`, nested in its valid domain
    fn draw_box_for(&mut self, s: usize, nvars: usize) -> Vec<(f32, f32)> {
        match self.slots[s].valid.clone() {
            None => self.draw_box(nvars),
            Some(Domain::Point(p)) => (0..nvars)
                .map(|i| {
                    let v = p.get(i).copied().unwrap_or(0.0);
                    (v, v)
                })
                .collect(),
            Some(Domain::Box(b)) => (0..nvars)
                .map(|i| {
                    let (lo, hi) = b.get(i).copied().unwrap_or((0.0, 0.0));
                    let (a, z) = self.ch(|c| match c.choose("in_box", 5) {
                        0 => (0.0, 1.0),
                        1 => (0.0, 0.5),
                        2 => (0.5, 1.0),
                        3 => (0.25, 0.75),
                        _ => (0.5, 0.5),
                    });
                    let w = hi - lo;
                    let l = (lo + w * a).clamp(lo, hi);
                    let h = (lo + w * z).clamp(l, hi);
                    (l, h)
                })
                .collect(),
        }
    }

    fn draw_box(&mut self, nvars: usize) -> Vec<(f32, f32)> {
        (0..nvars)
            .map(|_| {
                self.ch(|c| {
                    let a = draw_val(c);
                    let w = match c.choose("box_w", 5) {
                        0 => 0.0,
                        1 => 0.0625,
                        2 => 0.5,
                        3 => 1.0,
                        _ => 4.0,
                    };
                    (a, a + w)
                })
            })
            .collect()
    }

    /// One evaluation in both worlds; returns false if the op was impossible
    fn op_eval(&mut self, w: usize, s: usize) {
        let kind = self.ch(|c| c.choose("eval_kind", 4));
        let nvars = self.slots[s].dirty.vars().len();
        let fresh_eval = self.all_fresh;
        match kind {
            0 => {
                let vars = self.draw_inputs_for(s, nvars);
                let (storage, dirty_st) = self.tape_storage(w);
                if dirty_st {
                    self.rep.count("fault.dirty_tape_storage", 1);
                }
                let slot = &self.slots[s];
                let wk = &mut self.workers[w];
                let r = rt::catch(|| {
                    let tape = slot.dirty.point_tape(storage);
                    let mut fe = F::new_point_eval();
                    let ev = if fresh_eval { &mut fe } else { &mut wk.pe };
                    let r = ev_point::<F>(ev, &tape, &vars);
                    (tape, r)
                });
                let c = rt::catch(|| {
                    let tape = slot.clean.point_tape(Default::default());
                    let mut ev = F::new_point_eval();
                    ev_point::<F>(&mut ev, &tape, &vars)
                });
                self.finish_eval(w, s, "point", r, c, Domain::Point(vars), Held::P);
            }
            1 => {
                let bx = self.draw_box_for(s, nvars);
                let vars: Vec<Interval> =
                    bx.iter().map(|(a, b)| Interval::new(*a, *b)).collect();
                let (storage, dirty_st) = self.tape_storage(w);
                if dirty_st {
                    self.rep.count("fault.dirty_tape_storage", 1);
                }
                let slot = &self.slots[s];
                let wk = &mut self.workers[w];
                let r = rt::catch(|| {
                    let tape = slot.dirty.interval_tape(storage);
                    let mut fe = F::new_interval_eval();
                    let ev = if fresh_eval { &mut fe } else { &mut wk.ie };
                    let r = ev_interval::<F>(ev, &tape, &vars);
                    (tape, r)
                });
                let c = rt::catch(|| {
                    let tape = slot.clean.interval_tape(Default::default());
                    let mut ev = F::new_interval_eval();
                    ev_interval::<F>(&mut ev, &tape, &vars)
                });
                self.finish_eval(w, s, "interval", r, c, Domain::Box(bx), Held::I);
            }
            2 => {
                let n = self.ch(|c| match c.choose("slice_len_kind", 6) {
                    0 => c.choose("slice_len_small", 9),
                    1 => 8 * (1 + c.choose("slice_len_mult", 4)),
                    _ => c.choose("slice_len", 36),
                }) as usize;
                let vars: Vec<Vec<f32>> = (0..nvars)
                    .map(|_| (0..n).map(|_| self.ch(draw_val)).collect())
                    .collect();
                let (storage, dirty_st) = self.tape_storage(w);
                if dirty_st {
                    self.rep.count("fault.dirty_tape_storage", 1);
                }
                let slot = &self.slots[s];
                let wk = &mut self.workers[w];
                let r = rt::catch(|| {
                    let tape = slot.dirty.float_slice_tape(storage);
                    let mut fe = F::new_float_slice_eval();
                    let ev = if fresh_eval { &mut fe } else { &mut wk.fe };
                    let r = ev_float::<F>(ev, &tape, &vars);
                    (tape, (r, None))
                });
                let c = rt::catch(|| {
                    let tape = slot.clean.float_slice_tape(Default::default());
                    let mut ev = F::new_float_slice_eval();
                    (ev_float::<F>(&mut ev, &tape, &vars), None)
                });
                self.finish_eval(
                    w,
                    s,
                    "float_slice",
                    r,
                    c,
                    Domain::Point(vec![]),
                    Held::Fl,
                );
            }
            _ => {
                let n = self.ch(|c| c.choose("gslice_len", 12)) as usize;
                let vars: Vec<Vec<Grad>> = (0..nvars)
                    .map(|i| {
                        (0..n)
                            .map(|_| {
                                let v = self.ch(draw_val);
                                let mut d = [0.0f32; 3];
                                if i < 3 {
                                    d[i] = 1.0;
                                } else if self.ch(|c| c.flag("gseed")) {
                                    d[i % 3] = 0.5;
                                }
                                Grad::new(v, d[0], d[1], d[2])
                            })
                            .collect()
                    })
                    .collect();
                let (storage, dirty_st) = self.tape_storage(w);
                if dirty_st {
                    self.rep.count("fault.dirty_tape_storage", 1);
                }
                let slot = &self.slots[s];
                let wk = &mut self.workers[w];
                let r = rt::catch(|| {
                    let tape = slot.dirty.grad_slice_tape(storage);
                    let mut fe = F::new_grad_slice_eval();
                    let ev = if fresh_eval { &mut fe } else { &mut wk.ge };
                    let r = ev_grad::<F>(ev, &tape, &vars);
                    (tape, (r, None))
                });
                let c = rt::catch(|| {
                    let tape = slot.clean.grad_slice_tape(Default::default());
                    let mut ev = F::new_grad_slice_eval();
                    (ev_grad::<F>(&mut ev, &tape, &vars), None)
                });
                self.finish_eval(
                    w,
                    s,
                    "grad_slice",
                    r,
                    c,
                    Domain::Point(vec![]),
                    Held::G,
                );
            }
        }
    }

    #[allow(clippy::too_many_arguments)]
    fn finish_eval<T: Tape<Storage = F::TapeStorage>>(
        &mut self,
        w: usize,
        s: usize,
        what: &'static str,
        dirty: Result<(T, (Res, Option<F::Trace>)), String>,
        clean: Result<(Res, Option<F::Trace>), String>,
        dom: Domain,
        hold: fn(T) -> Held<F>,
    ) {
        self.rep.evaluations += 1;
        let (cr, ct) = match clean {
            Ok(c) => c,
            Err(p) => {
                // the reference itself panicked: not a reuse question
                self.rep.count("other.clean_panic", 1);
                self.st.borrow_mut().log("clean_panic", 0, 0);
                let _ = p;
                if let Ok((tape, _)) = dirty {
                    drop(tape);
                }
                return;
            }
        };
        let (tape, (dr, dt)) = match dirty {
            Ok(d) => d,
            Err(p) => {
                self.violate10(
                    &format!("{what}_panic_only_with_reused_objects"),
                    format!("reused-object {what} eval panicked: {p}"),
                );
                return;
            }
        };
        self.st.borrow_mut().log_digest(what, dr.digest());
        if dr != cr {
            self.violate10(
                &format!("{what}_result_differs_from_fresh"),
                format!(
                    "slot {s} worker {w}: reused {dr:?} vs fresh {cr:?}"
                ),
            );
        } else if dt != ct {
            self.violate10(
                &format!("{what}_trace_differs_from_fresh"),
                format!(
                    "slot {s} worker {w}: reused trace is_some={} fresh is_some={}",
                    dt.is_some(),
                    ct.is_some()
                ),
            );
        }
        if let Some(t) = ct {
            if matches!(what, "point" | "interval") {
                self.slots[s].trace = Some((t, dom));
            }
        }
        if let Some(t) = self.dispose(w, tape) {
            let clean = self.slots[s].clean.clone();
            if let Some((old, _)) = self.workers[w].held.take() {
                self.drop_held(w, old);
            }
            self.workers[w].held = Some((hold(t), clean));
            self.rep.count("fault.tape_held_across_ops", 1);
        }
    }

    fn drop_held(&mut self, w: usize, h: Held<F>) {
        let s = match h {
            Held::P(t) => t.recycle(),
            Held::I(t) => t.recycle(),
            Held::Fl(t) => t.recycle(),
            Held::G(t) => t.recycle(),
        };
        if let Some(s) = s {
            self.workers[w].tape_stash.push(s);
        }
    }

    /// Re-evaluates a tape that was kept alive while other operations
    /// (recycling, rebuilding into recycled storage) happened
    fn op_eval_held(&mut self, w: usize) {
        let Some((held, clean)) = self.workers[w].held.take() else {
            return;
        };
        let nvars = clean.vars().len();
        self.rep.count("fault.held_tape_reevaluated", 1);
        self.rep.evaluations += 1;
        let vars = self.draw_inputs(nvars);
        let (d, c) = match &held {
            Held::P(t) => {
                let wk = &mut self.workers[w];
                let d = rt::catch(|| ev_point::<F>(&mut wk.pe, t, &vars).0);
                let c = rt::catch(|| {
                    let tape = clean.point_tape(Default::default());
                    ev_point::<F>(&mut F::new_point_eval(), &tape, &vars).0
                });
                (d, c)
            }
            Held::I(t) => {
                let iv: Vec<Interval> = vars
                    .iter()
                    .map(|v| Interval::new(*v, *v + 0.5))
                    .collect();
                let wk = &mut self.workers[w];
                let d = rt::catch(|| ev_interval::<F>(&mut wk.ie, t, &iv).0);
                let c = rt::catch(|| {
                    let tape = clean.interval_tape(Default::default());
                    ev_interval::<F>(&mut F::new_interval_eval(), &tape, &iv).0
                });
                (d, c)
            }
            Held::Fl(t) => {
                let vv: Vec<Vec<f32>> = vars[..nvars]
                    .iter()
                    .map(|v| vec![*v, *v + 1.0, -*v])
                    .collect();
                let wk = &mut self.workers[w];
                let d = rt::catch(|| ev_float::<F>(&mut wk.fe, t, &vv));
                let c = rt::catch(|| {
                    let tape = clean.float_slice_tape(Default::default());
                    ev_float::<F>(&mut F::new_float_slice_eval(), &tape, &vv)
                });
                (d, c)
            }
            Held::G(t) => {
                let vv: Vec<Vec<Grad>> = vars[..nvars]
                    .iter()
                    .enumerate()
                    .map(|(i, v)| {
                        let mut d = [0.0; 3];
                        d[i % 3] = 1.0;
                        vec![Grad::new(*v, d[0], d[1], d[2]); 2]
                    })
                    .collect();
                let wk = &mut self.workers[w];
                let d = rt::catch(|| ev_grad::<F>(&mut wk.ge, t, &vv));
                let c = rt::catch(|| {
                    let tape = clean.grad_slice_tape(Default::default());
                    ev_grad::<F>(&mut F::new_grad_slice_eval(), &tape, &vv)
                });
                (d, c)
            }
        };
        match (d, c) {
            (Ok(d), Ok(c)) => {
                self.st.borrow_mut().log_digest("held", d.digest());
                if d != c {
                    self.violate10(
                        "held_tape_result_changed",
                        format!(
                            "a tape kept alive across other operations now gives {d:?}, fresh {c:?}"
                        ),
                    );
                }
            }
            (Err(p), Ok(_)) => self.violate10(
                "held_tape_panic",
                format!("evaluating a held tape panicked: {p}"),
            ),
            _ => self.rep.count("other.clean_panic", 1),
        }
        // keep holding it, or release
        if self.ch(|c| c.flag("held_release")) {
            self.drop_held(w, held);
        } else {
            self.workers[w].held = Some((held, clean));
        }
    }

    /// Sample points inside a traced domain (per variable slot)
    fn domain_points(&mut self, dom: &Domain, nvars: usize) -> Vec<Vec<f32>> {
        match dom {
            Domain::Point(p) => vec![p[..nvars.min(p.len())].to_vec()],
            Domain::Box(b) => {
                let npts = 1 + self.ch(|c| c.choose("npts", 9)) as usize;
                (0..npts)
                    .map(|k| {
                        b.iter()
                            .map(|(lo, hi)| {
                                let t = self.ch(|c| match c.choose("pt_kind", 4) {
                                    0 => 0.0,
                                    1 => 1.0,
                                    2 => 0.5,
                                    _ => c.float("pt_t", 0.0, 1.0, 16),
                                });
                                let t = if k == 0 { 0.0 } else { t };
                                (lo + (hi - lo) * t).clamp(*lo, *hi)
                            })
                            .collect()
                    })
                    .collect()
            }
        }
    }

    /// All point-wise evaluator kinds at `pts`, with fresh objects
    fn probe_fn(f: &F, pts: &[Vec<f32>]) -> Result<Vec<PtRes>, String> {
        rt::catch(|| {
            let nvars = f.vars().len();
            let mut out = vec![];
            let pt = f.point_tape(Default::default());
            let mut pe = F::new_point_eval();
            for p in pts {
                match ev_point::<F>(&mut pe, &pt, p).0 {
                    Res::Point(v) => out.push(PtRes {
                        point: v,
                        float: vec![],
                        grad: vec![],
                    }),
                    other => panic!("point eval failed: {other:?}"),
                }
            }
            // float slice: transpose
            let cols: Vec<Vec<f32>> = (0..nvars)
                .map(|i| pts.iter().map(|p| p[i]).collect())
                .collect();
            let ft = f.float_slice_tape(Default::default());
            match ev_float::<F>(&mut F::new_float_slice_eval(), &ft, &cols) {
                Res::Float(rows) => {
                    for (k, o) in out.iter_mut().enumerate() {
                        o.float = rows.iter().map(|r| r[k]).collect();
                    }
                }
                other => panic!("float-slice eval failed: {other:?}"),
            }
            let gcols: Vec<Vec<Grad>> = (0..nvars)
                .map(|i| {
                    pts.iter()
                        .map(|p| {
                            let mut d = [0.0; 3];
                            d[i % 3] = 1.0;
                            Grad::new(p[i], d[0], d[1], d[2])
                        })
                        .collect()
                })
                .collect();
            let gt = f.grad_slice_tape(Default::default());
            match ev_grad::<F>(&mut F::new_grad_slice_eval(), &gt, &gcols) {
                Res::Grad(rows) => {
                    for (k, o) in out.iter_mut().enumerate() {
                        o.grad = rows.iter().map(|r| r[k]).collect();
                    }
                }
                other => panic!("grad-slice eval failed: {other:?}"),
            }
            out
        })
    }

    /// True if no intermediate value of the prototype expression is NaN at
    /// `p` (given per variable slot of `f`).  Interval enclosure, on which
    /// simplification rests, exempts points whose value is NaN.
    fn nan_free(&self, proto: usize, f: &F, p: &[f32]) -> bool {
        self.regular(proto, f, p, false)
    }

    fn regular(&self, proto: usize, f: &F, p: &[f32], allow_nan: bool) -> bool {
        let pr = &self.protos[proto];
        let (mut x, mut y, mut z) = (0.0, 0.0, 0.0);
        let mut vars = vec![0.0f32; pr.vars.len()];
        for (v, idx) in f.vars().iter() {
            match v {
                Var::X => x = p[idx],
                Var::Y => y = p[idx],
                Var::Z => z = p[idx],
                v => {
                    if let Some(k) = pr.vars.iter().position(|q| *q == v) {
                        vars[k] = p[idx];
                    }
                }
            }
        }
        let vals = eval_f32(&pr.dag, x, y, z, &vars);
        crate::gen_::regular_point_ex(&pr.dag, &pr.reach, &vals, allow_nan)
    }

    /// C04 comparison of a child with its parent at the sample points
    fn compare_c04(
        &mut self,
        clause: &str,
        proto: usize,
        parent: &F,
        pp: &[PtRes],
        pc: &[PtRes],
        pts: &[Vec<f32>],
        ctx: &str,
        at_traced_point: bool,
    ) {
        for (k, (p, c)) in pp.iter().zip(pc).enumerate() {
            // A trace recorded by a *point* evaluation, compared at that very
            // point, involves no interval enclosure: every retained operation
            // of the child sees the operands the parent's saw, NaN or not, so
            // the NaN exemptions (which come from C03) do not apply and the
            // child must reproduce a NaN result too.
            if !self.regular(proto, parent, &pts[k], at_traced_point) {
                self.rep.skipped_oracle += 1;
                self.rep.count("oracle.skipped_nan_intermediate", 1);
                continue;
            }
            // where the parent's own evaluator kinds disagree (sign of zero
            // feeding atan2 etc.) the question belongs to C02/C05, not C04
            let gv: Vec<u32> = p.grad.iter().map(|g| g[0]).collect();
            if !at_traced_point
                && p.point.iter().chain(&p.float).chain(&gv).any(|v| *v == 0x7fc0_0000)
            {
                // the parent's own value is NaN here: interval enclosure
                // exempts such points
                self.rep.skipped_oracle += 1;
                self.rep.count("oracle.skipped_parent_value_nan", 1);
                continue;
            }
            if p.point != p.float || p.point != gv {
                self.rep.skipped_oracle += 1;
                self.rep.count("oracle.skipped_parent_kinds_disagree", 1);
                continue;
            }
            self.rep.checked_oracle += 1;
            if at_traced_point {
                self.rep.count("oracle.compared_at_traced_point", 1);
            }
            if p != c {
                self.violate04(
                    clause,
                    format!(
                        "{ctx} at point {:?}: parent {p:?} child {c:?}",
                        pts[k]
                    ),
                );
                return;
            }
        }
    }

    fn vars_equal(a: &F, b: &F) -> bool {
        let mut x: Vec<(Var, usize)> = a.vars().iter().collect();
        let mut y: Vec<(Var, usize)> = b.vars().iter().collect();
        x.sort();
        y.sort();
        x == y
    }

    /// Simplification with a trace that decides nothing (`Both` everywhere; the
    /// empty trace of a choice-free function).  No evaluator hands such a
    /// trace out, but it is a legal argument (both branches are always a sound
    /// choice) and C10 speaks of every simplify call: the child built with
    /// reused objects must be the child built with fresh ones, also when it is
    /// evaluated and simplified again later in the history.  C10 mode only
    /// (C04 is about traces an evaluator returned).
    fn op_simplify_undecided(&mut self, w: usize, s: usize) {
        let like = self.slots[s].trace.as_ref().map(|t| &t.0);
        let Some(tr) = self.slots[s].dirty.undecided_trace(like) else {
            return self.op_eval(w, s);
        };
        let nvars = self.slots[s].dirty.vars().len();
        let dom = self.slots[s]
            .valid
            .clone()
            .unwrap_or(Domain::Box(vec![(-1.0, 1.0); nvars]));
        self.rep.count("op.simplify_with_undecided_trace", 1);
        self.slots[s].trace = Some((tr, dom));
        self.op_simplify(w, s);
    }

    fn op_simplify(&mut self, w: usize, s: usize) {
        let Some((trace, dom)) = self.slots[s].trace.clone() else {
            return;
        };
        if self.slots[s].chain >= 6 {
            return;
        }
        self.rep.count("op.simplify", 1);
        let multi = self.slots[s].dirty.output_count() > 1;
        if multi {
            self.rep.count("op.simplify_multi_output", 1);
        }
        // dirty world: reused workspace and (maybe) dirty storage
        let use_dirty_storage = !self.all_fresh
            && !self.workers[w].fn_stash.is_empty()
            && self.ch(|c| c.odds("dirty_fn_storage", 3, 4));
        let storage = if use_dirty_storage {
            let n = self.workers[w].fn_stash.len() as u32;
            let k = self.ch(|c| c.choose("which_fn_storage", n)) as usize;
            self.rep.count("fault.dirty_fn_storage", 1);
            self.workers[w].fn_stash.swap_remove(k)
        } else {
            Default::default()
        };
        let fresh_ws = self.all_fresh;
        if !fresh_ws {
            self.rep.count("fault.workspace_reuse", 1);
        }
        let slot = &self.slots[s];
        let wk = &mut self.workers[w];
        let d = rt::catch(|| {
            let mut nws = F::Workspace::default();
            let ws = if fresh_ws { &mut nws } else { &mut wk.ws };
            slot.dirty.simplify(&trace, storage, ws)
        });
        let c = rt::catch(|| {
            slot.clean.simplify(
                &trace,
                Default::default(),
                &mut F::Workspace::default(),
            )
        });
        let parent_clean = slot.clean.clone();
        let nvars = parent_clean.vars().len();
        let chain = slot.chain;
        let proto = slot.proto;
        if d.is_err() {
            // a call that panicked leaves its workspace in an unspecified
            // state; production code could not keep using it either
            self.workers[w].ws = Default::default();
        }
        let clean_child = match c {
            Ok(Ok(c)) => c,
            Ok(Err(e)) => {
                self.violate04(
                    "simplify_rejects_reported_trace",
                    format!("fresh simplify returned error {e}"),
                );
                return;
            }
            Err(p) => {
                let clause = if multi {
                    "simplify_panics_multi_output"
                } else {
                    "simplify_panics"
                };
                self.violate04(
                    clause,
                    format!(
                        "simplify with a trace the evaluator reported panicked (outputs={}): {p}",
                        parent_clean.output_count()
                    ),
                );
                return;
            }
        };
        let dirty_child = match d {
            Ok(Ok(d)) => d,
            Ok(Err(e)) => {
                self.violate10(
                    "simplify_error_only_with_reused_objects",
                    e.to_string(),
                );
                return;
            }
            Err(p) => {
                self.violate10(
                    "simplify_panic_only_with_reused_objects",
                    format!("simplify with reused workspace/storage panicked: {p}"),
                );
                return;
            }
        };
        self.st
            .borrow_mut()
            .log("simplify", dirty_child.size() as u64, chain as u64);

        // C10: the reused-object child is the fresh-object child
        if dirty_child.size() != clean_child.size()
            || dirty_child.output_count() != clean_child.output_count()
            || !Self::vars_equal(&dirty_child, &clean_child)
        {
            self.violate10(
                "simplify_shape_differs_from_fresh",
                format!(
                    "reused size {} outputs {} vs fresh size {} outputs {}",
                    dirty_child.size(),
                    dirty_child.output_count(),
                    clean_child.size(),
                    clean_child.output_count()
                ),
            );
        }
        let pts = self.domain_points(&dom, nvars);
        let pd = Self::probe_fn(&dirty_child, &pts);
        let pc = Self::probe_fn(&clean_child, &pts);
        let pp = Self::probe_fn(&parent_clean, &pts);
        match (&pd, &pc) {
            (Ok(a), Ok(b)) => {
                if a != b {
                    self.violate10(
                        "simplified_fn_differs_from_fresh",
                        format!("child built with reused workspace/storage evaluates to {a:?}, fresh child {b:?}"),
                    );
                }
            }
            (Err(p), Ok(_)) => self.violate10(
                "simplified_fn_panics_only_with_reused_objects",
                p.clone(),
            ),
            _ => (),
        }
        // C04: child == parent on the traced domain
        if clean_child.output_count() != parent_clean.output_count() {
            self.violate04(
                "child_output_count",
                format!(
                    "{} vs parent {}",
                    clean_child.output_count(),
                    parent_clean.output_count()
                ),
            );
        }
        if !Self::vars_equal(&clean_child, &parent_clean) {
            self.violate04(
                "child_renumbers_variables",
                "child variable map differs from the parent's".to_string(),
            );
        }
        match (&pp, &pc) {
            (Ok(p), Ok(c)) => {
                let ctx = format!("domain {dom:?} chain depth {chain}");
                self.compare_c04(
                    "child_differs_from_parent_on_traced_domain",
                    proto,
                    &parent_clean,
                    p,
                    c,
                    &pts,
                    &ctx,
                    matches!(dom, Domain::Point(_)),
                );
            }
            (Ok(_), Err(e)) => {
                self.violate04("child_eval_panics", e.clone());
            }
            _ => (),
        }
        if self.mode == Mode::C04 {
            // the history-produced child must obey C04 as well
            if let (Ok(p), Ok(d)) = (&pp, &pd) {
                let ctx = format!("domain {dom:?} chain depth {chain}");
                self.compare_c04(
                    "history_child_differs_from_parent_on_traced_domain",
                    proto,
                    &parent_clean,
                    p,
                    d,
                    &pts,
                    &ctx,
                    matches!(dom, Domain::Point(_)),
                );
            }
        }

        // cross-budget simplification of the same parent and trace
        if self.ch(|c| c.odds("cross_budget", 1, 3)) {
            let cols: Vec<Vec<f32>> = (0..nvars)
                .map(|i| pts.iter().map(|p| p[i]).collect())
                .collect();
            let target = self.ch(|c| c.choose("cross_target", 7));
            let two = target == TWO_REGISTERS;
            let slot = &self.slots[s];
            let dr = slot.dirty.cross(
                &trace,
                target,
                &mut self.cross,
                !self.all_fresh,
                &cols,
            );
            let cr = slot.clean.cross(
                &trace,
                target,
                &mut CrossStash::default(),
                false,
                &cols,
            );
            if let (Some(dr), Some(cr)) = (dr, cr) {
                self.rep.count("op.cross_budget_simplify", 1);
                if two {
                    self.rep.count("op.cross_budget_two_registers", 1);
                }
                match (dr, cr) {
                    // a budget of two registers: every failure is reported
                    // under one clause of its own (known finding F8: the
                    // allocator needs three registers for a three-operand
                    // instruction whose operands are all live)
                    (Err(p), _) | (_, Err(p)) if two => self.violate04(
                        "two_register_budget_fails",
                        format!("simplify_with::<2> outputs={}: {p}", parent_clean.output_count()),
                    ),
                    (Ok((dv, ds)), Ok((cv, cs))) => {
                        if dv != cv || ds != cs {
                            self.violate10(
                                "cross_budget_child_differs_from_fresh",
                                format!("{dv:?} size {ds} vs {cv:?} size {cs}"),
                            );
                        }
                        if let (Ok(p), Res::Float(rows)) = (&pp, &cv) {
                            for (k, pr) in p.iter().enumerate() {
                                if !self.nan_free(proto, &parent_clean, &pts[k]) {
                                    continue;
                                }
                                let gv: Vec<u32> =
                                    pr.grad.iter().map(|g| g[0]).collect();
                                if pr.point != pr.float || pr.point != gv {
                                    continue;
                                }
                                let child: Vec<u32> =
                                    rows.iter().map(|r| r[k]).collect();
                                if child != pr.float {
                                    self.violate04(
                                        if two {
                                            "two_register_budget_fails"
                                        } else {
                                            "cross_budget_child_differs_from_parent"
                                        },
                                        format!(
                                            "budget {target} point {:?}: parent {:?} child {child:?}",
                                            pts[k], pr.float
                                        ),
                                    );
                                    break;
                                }
                            }
                        }
                    }
                    (Err(p), Ok(_)) => self.violate10(
                        "cross_budget_panic_only_with_reused_objects",
                        p,
                    ),
                    (_, Err(p)) => self.violate04(
                        "cross_budget_simplify_panics",
                        format!("budget {target} outputs={}: {p}", parent_clean.output_count()),
                    ),
                }
            }
        }

        let new = Slot {
            dirty: dirty_child,
            clean: clean_child,
            trace: None,
            chain: chain + 1,
            proto,
            valid: Some(dom.clone()),
        };
        self.push_slot(w, new);
    }

    fn push_slot(&mut self, w: usize, s: Slot<F>) {
        if self.slots.len() >= 8 {
            let n = self.slots.len() as u32;
            let k = self.ch(|c| c.choose("evict_slot", n)) as usize;
            self.recycle_slot(w, k);
        }
        self.slots.push(s);
    }

    fn recycle_slot(&mut self, w: usize, k: usize) {
        let slot = self.slots.swap_remove(k);
        self.rep.count("op.recycle_fn", 1);
        match rt::catch(|| slot.dirty.recycle()) {
            Ok(Some(st)) => {
                if !self.all_fresh {
                    self.workers[w].fn_stash.push(st);
                }
                self.rep.count("fault.fn_storage_recycled", 1);
            }
            Ok(None) => self.rep.count("fault.recycle_refused_shared", 1),
            Err(p) => self.violate10("recycle_panics", p),
        }
    }

    fn op_clone(&mut self, w: usize, s: usize) {
        let slot = &self.slots[s];
        let new = Slot {
            dirty: slot.dirty.clone(),
            clean: slot.clean.clone(),
            trace: slot.trace.clone(),
            chain: slot.chain,
            proto: slot.proto,
            valid: slot.valid.clone(),
        };
        self.rep.count("fault.shared_handle_clone", 1);
        self.push_slot(w, new);
    }

    fn op_move_stash(&mut self, a: usize, b: usize) {
        if a == b {
            return;
        }
        if let Some(s) = self.workers[a].tape_stash.pop() {
            self.workers[b].tape_stash.push(s);
            self.rep.count("fault.cross_worker_handoff", 1);
        }
        if let Some(s) = self.workers[a].fn_stash.pop() {
            self.workers[b].fn_stash.push(s);
            self.rep.count("fault.cross_worker_handoff", 1);
        }
    }

    /// A `RenderHandle` episode over a single-output function: lazily built
    /// tapes from the worker's stash, cached simplification keyed by trace,
    /// recycle back into the stash.  Everything goes through the public
    /// shape-level evaluators, as the renderers do.
    fn op_render_handle(&mut self, w: usize, s: usize) {
        if self.slots[s].dirty.output_count() != 1 {
            return;
        }
        self.rep.count("op.render_handle_episode", 1);
        let varmap: Vec<(Var, usize)> =
            self.slots[s].dirty.vars().iter().collect();
        let nvars = varmap.len();
        let get = |v: Var| varmap.iter().find(|(q, _)| *q == v).map(|(_, i)| *i);
        let (ix, iy, iz) = (get(Var::X), get(Var::Y), get(Var::Z));
        let parent_clean = self.slots[s].clean.clone();
        let mut rh =
            RenderHandle::new(Shape::new_raw(self.slots[s].dirty.clone()));
        let steps = 1 + self.ch(|c| c.choose("rh_steps", 7));
        let mut boxes: Vec<Vec<(f32, f32)>> = vec![];
        for _ in 0..steps {
            // revisit an earlier box half of the time so that the cache hits
            let bx = if !boxes.is_empty() && self.ch(|c| c.flag("rh_revisit")) {
                let n = boxes.len() as u32;
                boxes[self.ch(|c| c.choose("rh_which", n)) as usize].clone()
            } else {
                let b = self.draw_box_for(s, nvars);
                boxes.push(b.clone());
                b
            };
            // level 1: the drawn box; level 2 (half of the steps): a sub-box
            // traced on the child handle and simplified again, as the tile
            // recursion of the renderers does
            let nested = self.ch(|c| c.flag("rh_nested"));
            let sub: Vec<(f32, f32)> = bx
                .iter()
                .map(|(lo, hi)| {
                    let (a, b) = self.ch(|c| {
                        match c.choose("rh_sub", 4) {
                            0 => (0.0, 0.5),
                            1 => (0.5, 1.0),
                            2 => (0.25, 0.75),
                            _ => (0.0, 1.0),
                        }
                    });
                    let w = hi - lo;
                    ((lo + w * a).clamp(*lo, *hi), (lo + w * b).clamp(*lo, *hi))
                })
                .collect();
            struct Level {
                ivx: Interval,
                ivy: Interval,
                ivz: Interval,
                sv_i: ShapeVars<Interval>,
                pts: Vec<Vec<f32>>,
                cols: Vec<Vec<f32>>,
                xs: Vec<f32>,
                ys: Vec<f32>,
                zs: Vec<f32>,
                sv_f: ShapeVars<Vec<f32>>,
                sv_g: ShapeVars<Vec<Grad>>,
                /// which bulk tapes are requested on the child, in which
                /// order: 0 = float only, 1 = grad then float, 2 = float then
                /// grad, 3 = grad only
                gmode: u32,
            }
            let mut levels: Vec<Level> = vec![];
            for (li, bxl) in [&bx, &sub].into_iter().enumerate() {
                if li == 1 && !nested {
                    break;
                }
                let iv = |i: Option<usize>| {
                    i.map(|i| Interval::new(bxl[i].0, bxl[i].1))
                        .unwrap_or(Interval::new(0.0, 0.0))
                };
                let mut sv_i = ShapeVars::<Interval>::new();
                for (v, i) in &varmap {
                    if let Var::V(vi) = v {
                        sv_i.insert(*vi, Interval::new(bxl[*i].0, bxl[*i].1));
                    }
                }
                let pts = self.domain_points(&Domain::Box(bxl.clone()), nvars);
                let cols: Vec<Vec<f32>> = (0..nvars)
                    .map(|i| pts.iter().map(|p| p[i]).collect())
                    .collect();
                let col = |i: Option<usize>| {
                    i.map(|i| cols[i].clone())
                        .unwrap_or(vec![0.0; pts.len()])
                };
                let mut sv_f = ShapeVars::<Vec<f32>>::new();
                let mut sv_g = ShapeVars::<Vec<Grad>>::new();
                for (v, i) in &varmap {
                    if let Var::V(vi) = v {
                        sv_f.insert(*vi, cols[*i].clone());
                        sv_g.insert(
                            *vi,
                            cols[*i].iter().map(|v| Grad::from(*v)).collect(),
                        );
                    }
                }
                levels.push(Level {
                    ivx: iv(ix),
                    ivy: iv(iy),
                    ivz: iv(iz),
                    sv_i,
                    xs: col(ix),
                    ys: col(iy),
                    zs: col(iz),
                    sv_f,
                    sv_g,
                    pts,
                    cols,
                    gmode: self.ch(|c| c.choose("rh_gmode", 4)),
                });
            }
            // the handle-level calls, on whatever objects are passed in
            #[allow(clippy::too_many_arguments)]
            fn walk<F: Function>(
                rh: &mut RenderHandle<F>,
                levels: &[Level],
                shape_st: &mut Vec<F::Storage>,
                tape_st: &mut Vec<F::TapeStorage>,
                ws: &mut F::Workspace,
                sie: &mut ShapeTracingEval<F::IntervalEval>,
                sfe: &mut ShapeBulkEval<F::FloatSliceEval>,
                sge: &mut ShapeBulkEval<F::GradSliceEval>,
                out: &mut Vec<Res>,
                gout: &mut Vec<Vec<[u32; 4]>>,
            ) {
                let Some((l, rest)) = levels.split_first() else {
                    return;
                };
                let tr = {
                    let it = rh.i_tape(tape_st);
                    let (_v, tr) = sie
                        .eval_raw(it, l.ivx, l.ivy, l.ivz, None, &l.sv_i)
                        .expect("vars are bound");
                    tr.cloned()
                };
                let Some(tr) = tr else {
                    return;
                };
                let child = rh.simplify(&tr, ws, shape_st, tape_st);
                let mut grad = |child: &mut RenderHandle<F>,
                                tape_st: &mut Vec<F::TapeStorage>| {
                    let g = |v: &[f32], k: usize| -> Vec<Grad> {
                        v.iter()
                            .map(|v| {
                                let mut d = [0.0; 3];
                                d[k] = 1.0;
                                Grad::new(*v, d[0], d[1], d[2])
                            })
                            .collect()
                    };
                    let gt = child.g_tape(tape_st);
                    let v = sge
                        .eval_raw(
                            gt,
                            &g(&l.xs, 0),
                            &g(&l.ys, 1),
                            &g(&l.zs, 2),
                            None,
                            ShapeBulkEval::<F::GradSliceEval>::var_array(&l.sv_g),
                        )
                        .expect("vars are bound");
                    gout.push(
                        v.iter()
                            .map(|g| {
                                [canon(g.v), canon(g.dx), canon(g.dy), canon(g.dz)]
                            })
                            .collect(),
                    );
                };
                if l.gmode == 1 || l.gmode == 3 {
                    grad(child, tape_st);
                }
                if l.gmode == 3 {
                    out.push(Res::Err("grad only".to_string()));
                } else {
                    let ft = child.f_tape(tape_st);
                    let v = sfe
                        .eval_raw(
                            ft,
                            &l.xs,
                            &l.ys,
                            &l.zs,
                            None,
                            ShapeBulkEval::<F::FloatSliceEval>::var_array(
                                &l.sv_f,
                            ),
                        )
                        .expect("vars are bound");
                    out.push(Res::Float(vec![
                        v.iter().map(|v| canon(*v)).collect(),
                    ]));
                }
                if l.gmode == 2 {
                    grad(child, tape_st);
                }
                walk::<F>(
                    child, rest, shape_st, tape_st, ws, sie, sfe, sge, out, gout,
                );
            }
            let wk = &mut self.workers[w];
            let all_fresh = self.all_fresh;
            let rh = &mut rh;
            let r = rt::catch(|| {
                let mut out = vec![];
                let mut gout = vec![];
                if all_fresh {
                    walk::<F>(
                        rh,
                        &levels,
                        &mut vec![],
                        &mut vec![],
                        &mut F::Workspace::default(),
                        &mut Default::default(),
                        &mut Default::default(),
                        &mut Default::default(),
                        &mut out,
                        &mut gout,
                    );
                } else {
                    walk::<F>(
                        rh,
                        &levels,
                        &mut wk.fn_stash,
                        &mut wk.tape_stash,
                        &mut wk.ws,
                        &mut wk.sie,
                        &mut wk.sfe,
                        &mut wk.sge,
                        &mut out,
                        &mut gout,
                    );
                }
                (out, gout)
            });
            // parent values at the sample points of each level
            let c = rt::catch(|| {
                let ft = parent_clean.float_slice_tape(Default::default());
                levels
                    .iter()
                    .map(|l| {
                        ev_float::<F>(
                            &mut F::new_float_slice_eval(),
                            &ft,
                            &l.cols,
                        )
                    })
                    .collect::<Vec<Res>>()
            });
            // the same handle-level calls with fresh objects only: a panic
            // that also happens here is not a question of reuse
            let fresh = rt::catch(|| {
                let mut frh = RenderHandle::new(Shape::new_raw(
                    parent_clean.clone(),
                ));
                let mut out = vec![];
                let mut gout = vec![];
                walk::<F>(
                    &mut frh,
                    &levels,
                    &mut vec![],
                    &mut vec![],
                    &mut F::Workspace::default(),
                    &mut Default::default(),
                    &mut Default::default(),
                    &mut Default::default(),
                    &mut out,
                    &mut gout,
                );
                gout
            });
            if fresh.is_err() {
                self.rep.count("other.clean_panic", 1);
                self.st.borrow_mut().log("clean_panic", 1, 0);
                if r.is_err() {
                    // poisoned by the same panic: the handle is abandoned
                    self.workers[w].ws = Default::default();
                    return;
                }
            }
            if nested {
                self.rep.count("op.render_handle_nested_step", 1);
            }
            // gradient tapes requested on the children: the reused handle
            // against the fresh one doing the same calls
            if let (Ok((_, dg)), Ok(fg)) = (&r, &fresh) {
                self.rep.count("op.render_handle_grad_tape_eval", dg.len() as u64);
                if dg != fg {
                    self.violate10(
                        "render_handle_grad_differs_from_fresh",
                        format!(
                            "gradient tapes of the reused handle's children give {dg:?}, a fresh handle doing the same calls {fg:?}"
                        ),
                    );
                }
            }
            let r = r.map(|(out, _)| out);
            match (r, c) {
                (Ok(ds), Ok(cs)) => {
                    let proto = self.slots[s].proto;
                    for (li, d) in ds.iter().enumerate() {
                        if matches!(d, Res::Err(_)) {
                            // only the gradient tape was requested here
                            continue;
                        }
                        let c = &cs[li];
                        let pts = &levels[li].pts;
                        let bx = if li == 0 { &bx } else { &sub };
                        self.rep.evaluations += 1;
                        self.st.borrow_mut().log_digest("rh", d.digest());
                        let mut ok: Vec<bool> = pts
                            .iter()
                            .map(|p| self.nan_free(proto, &parent_clean, p))
                            .collect();
                        if let Res::Float(rows) = c {
                            if rows.len() == 1 {
                                for (k, v) in rows[0].iter().enumerate() {
                                    if *v == 0x7fc0_0000 && k < ok.len() {
                                        ok[k] = false;
                                    }
                                }
                            }
                        }
                        let keep = |r: &Res| -> Vec<u32> {
                            match r {
                                Res::Float(rows) if rows.len() == 1 => rows[0]
                                    .iter()
                                    .zip(&ok)
                                    .filter(|(_, k)| **k)
                                    .map(|(v, _)| *v)
                                    .collect(),
                                _ => vec![0xdead],
                            }
                        };
                        if keep(d) != keep(c) {
                            // the cached/recycled handle returned a function
                            // that disagrees with the parent on the traced box
                            let msg = format!(
                                "render handle level {li} child {d:?} vs parent {c:?} on box {bx:?}"
                            );
                            self.violate04(
                                "render_handle_child_differs_on_traced_box",
                                msg.clone(),
                            );
                            self.violate10(
                                "render_handle_child_differs_on_traced_box",
                                msg,
                            );
                            break;
                        }
                    }
                }
                (Err(p), Ok(_)) => {
                    self.violate10("render_handle_panics", p.clone());
                    self.violate04("render_handle_panics", p);
                    return;
                }
                _ => (),
            }
        }
        if !self.all_fresh && self.ch(|c| c.odds("rh_sibling", 1, 3)) {
            self.rh_sibling(w, s, rh, &varmap, parent_clean);
            return;
        }
        let wk = &mut self.workers[w];
        let all_fresh = self.all_fresh;
        let r = rt::catch(|| {
            if all_fresh {
                rh.recycle(&mut vec![], &mut vec![]);
            } else {
                rh.recycle(&mut wk.fn_stash, &mut wk.tape_stash);
            }
        });
        if let Err(p) = r {
            self.violate10("render_handle_recycle_panics", p);
        }
    }

    /// End of a `RenderHandle` episode with a sibling: the handle is cloned
    /// once its tapes exist (handles are cloned to share them with other
    /// workers), the original is recycled, whatever storage came back is
    /// reused for a different function, and the sibling is evaluated.
    fn rh_sibling(
        &mut self,
        w: usize,
        s: usize,
        mut rh: RenderHandle<F>,
        varmap: &[(Var, usize)],
        parent_clean: F,
    ) {
        self.rep.count("fault.render_handle_sibling_recycled", 1);
        let nvars = varmap.len();
        let get = |v: Var| varmap.iter().find(|(q, _)| *q == v).map(|(_, i)| *i);
        let (ix, iy, iz) = (get(Var::X), get(Var::Y), get(Var::Z));
        let npts = 1 + self.ch(|c| c.choose("rh_sib_npts", 9)) as usize;
        let pts: Vec<Vec<f32>> = (0..npts)
            .map(|_| self.draw_inputs_for(s, nvars)[..nvars].to_vec())
            .collect();
        let cols: Vec<Vec<f32>> = (0..nvars)
            .map(|i| pts.iter().map(|p| p[i]).collect())
            .collect();
        let col = |i: Option<usize>| {
            i.map(|i| cols[i].clone()).unwrap_or(vec![0.0; npts])
        };
        let (xs, ys, zs) = (col(ix), col(iy), col(iz));
        let mut sv_f = ShapeVars::<Vec<f32>>::new();
        for (v, i) in varmap {
            if let Var::V(vi) = v {
                sv_f.insert(*vi, cols[*i].clone());
            }
        }
        let nslots = self.slots.len() as u32;
        let o = self.ch(|c| c.choose("rh_sib_other", nslots)) as usize;
        let other = self.slots[o].dirty.clone();
        let other_clean = self.slots[o].clean.clone();
        let on = other.vars().len();
        let ocols: Vec<Vec<f32>> = (0..on)
            .map(|_| (0..npts).map(|_| self.ch(draw_val)).collect())
            .collect();
        let use_g = self.ch(|c| c.flag("rh_sib_g"));
        let wk = &mut self.workers[w];
        let d = rt::catch(|| {
            let _ = rh.f_tape(&mut wk.tape_stash);
            let _ = rh.i_tape(&mut wk.tape_stash);
            if use_g {
                let _ = rh.g_tape(&mut wk.tape_stash);
            }
            let mut sib = rh.clone();
            let before = wk.tape_stash.len();
            rh.recycle(&mut wk.fn_stash, &mut wk.tape_stash);
            // everything the recycle handed back now hosts another function
            let mut back = vec![];
            let mut ro = vec![];
            while wk.tape_stash.len() > before {
                let st = wk.tape_stash.pop().unwrap();
                let t = other.float_slice_tape(st);
                ro.push(ev_float::<F>(&mut wk.fe, &t, &ocols));
                back.extend(t.recycle());
            }
            let gave = back.len();
            wk.tape_stash.extend(back);
            let v = wk
                .sfe
                .eval_raw(
                    sib.f_tape(&mut wk.tape_stash),
                    &xs,
                    &ys,
                    &zs,
                    None,
                    ShapeBulkEval::<F::FloatSliceEval>::var_array(&sv_f),
                )
                .expect("vars are bound")
                .iter()
                .map(|v| canon(*v))
                .collect::<Vec<u32>>();
            sib.recycle(&mut wk.fn_stash, &mut wk.tape_stash);
            (ro, v, gave)
        });
        let c = rt::catch(|| {
            let t = other_clean.float_slice_tape(Default::default());
            let ro = ev_float::<F>(&mut F::new_float_slice_eval(), &t, &ocols);
            let mut frh = RenderHandle::new(Shape::new_raw(parent_clean.clone()));
            let v = ShapeBulkEval::<F::FloatSliceEval>::default()
                .eval_raw(
                    frh.f_tape(&mut vec![]),
                    &xs,
                    &ys,
                    &zs,
                    None,
                    ShapeBulkEval::<F::FloatSliceEval>::var_array(&sv_f),
                )
                .expect("vars are bound")
                .iter()
                .map(|v| canon(*v))
                .collect::<Vec<u32>>();
            (ro, v)
        });
        self.rep.evaluations += 2;
        match (d, c) {
            (Ok((dro, dv, gave)), Ok((cro, cv))) => {
                self.rep.count("probe.sibling_recycle_gave_storage", gave as u64);
                self.st.borrow_mut().log("rh_sib", dv.len() as u64, gave as u64);
                if dv != cv {
                    self.violate10(
                        "render_handle_sibling_changed_after_recycle",
                        format!(
                            "cloned handle gives {dv:?} after the original was recycled ({gave} storages reused), fresh {cv:?}"
                        ),
                    );
                } else if dro.iter().any(|r| *r != cro) {
                    self.violate10(
                        "float_slice_result_differs_from_fresh",
                        format!(
                            "function built into storage recycled from a cloned handle: {dro:?} vs fresh {cro:?}"
                        ),
                    );
                }
            }
            (Err(p), Ok(_)) => {
                self.workers[w].ws = Default::default();
                self.violate10("render_handle_sibling_panics", p);
            }
            _ => {
                self.rep.count("other.clean_panic", 1);
                self.st.borrow_mut().log("clean_panic", 2, 0);
            }
        }
    }

    /// Shape-level evaluators (the wrappers renderers and the mesher use)
    /// kept by the worker across functions with different variable sets and
    /// batch lengths, compared with fresh wrappers
    fn op_shape_eval(&mut self, w: usize, s: usize) {
        if self.slots[s].dirty.output_count() != 1 {
            return;
        }
        self.rep.count("op.shape_level_eval", 1);
        self.rep.evaluations += 1;
        let varmap: Vec<(Var, usize)> =
            self.slots[s].dirty.vars().iter().collect();
        let kind = self.ch(|c| c.choose("shape_eval_kind", 4));
        let n = match kind {
            0 | 1 => 1,
            2 => self.ch(|c| c.choose("shape_n", 21)) as usize,
            _ => self.ch(|c| c.choose("shape_gn", 9)) as usize,
        };
        let xf: Option<nalgebra::Matrix4<f32>> =
            if self.ch(|c| c.flag("shape_xf")) {
                let mut m = nalgebra::Matrix4::<f32>::identity();
                m[(0, 3)] = self.ch(|c| c.float_sym("shape_xf_t", 1.0, 4));
                m[(1, 1)] = 0.5;
                m[(2, 0)] = 0.25;
                Some(m)
            } else {
                None
            };
        let xs: Vec<f32> = (0..n).map(|_| self.ch(draw_val)).collect();
        let ys: Vec<f32> = (0..n).map(|_| self.ch(draw_val)).collect();
        let zs: Vec<f32> = (0..n).map(|_| self.ch(draw_val)).collect();
        let mut sv = ShapeVars::<f32>::new();
        for (v, _) in &varmap {
            if let Var::V(vi) = v {
                sv.insert(*vi, self.ch(draw_val));
            }
        }
        let (storage, dirty_st) = self.tape_storage(w);
        if dirty_st {
            self.rep.count("fault.dirty_tape_storage", 1);
        }
        let all_fresh = self.all_fresh;
        let dshape = Shape::new_raw(self.slots[s].dirty.clone());
        let cshape = Shape::new_raw(self.slots[s].clean.clone());
        let wk = &mut self.workers[w];
        let xf = xf.as_ref();
        // returns canonical bits of the result plus storage to recycle
        let run = |shape: &Shape<F>,
                   storage: F::TapeStorage,
                   spe: &mut ShapeTracingEval<F::PointEval>,
                   sie: &mut ShapeTracingEval<F::IntervalEval>,
                   sfe: &mut ShapeBulkEval<F::FloatSliceEval>,
                   sge: &mut ShapeBulkEval<F::GradSliceEval>|
         -> (Vec<u32>, Option<F::TapeStorage>) {
            match kind {
                0 => {
                    let t = shape.point_tape(storage);
                    let v = spe
                        .eval_raw(&t, xs[0], ys[0], zs[0], xf, &sv)
                        .expect("vars bound")
                        .0;
                    (vec![canon(v)], t.recycle())
                }
                1 => {
                    let t = shape.interval_tape(storage);
                    let iv = |v: f32| Interval::new(v, v + 0.5);
                    let v = sie
                        .eval_raw(&t, iv(xs[0]), iv(ys[0]), iv(zs[0]), xf, &sv)
                        .expect("vars bound")
                        .0;
                    (vec![canon(v.lower()), canon(v.upper())], t.recycle())
                }
                2 => {
                    let t = shape.float_slice_tape(storage);
                    let v: Vec<u32> = sfe
                        .eval_raw(
                            &t,
                            &xs,
                            &ys,
                            &zs,
                            xf,
                            ShapeBulkEval::<F::FloatSliceEval>::var_value(&sv),
                        )
                        .expect("vars bound")
                        .iter()
                        .map(|v| canon(*v))
                        .collect();
                    assert_eq!(v.len(), n, "one result per sample");
                    (v, t.recycle())
                }
                _ => {
                    let t = shape.grad_slice_tape(storage);
                    let g = |v: &[f32], a: usize| -> Vec<Grad> {
                        v.iter()
                            .map(|v| {
                                let mut d = [0.0; 3];
                                d[a] = 1.0;
                                Grad::new(*v, d[0], d[1], d[2])
                            })
                            .collect()
                    };
                    let out = sge
                        .eval_raw(
                            &t,
                            &g(&xs, 0),
                            &g(&ys, 1),
                            &g(&zs, 2),
                            xf,
                            ShapeBulkEval::<F::GradSliceEval>::var_value(&sv),
                        )
                        .expect("vars bound")
                        .to_vec();
                    assert_eq!(out.len(), n, "one result per sample");
                    let v = out
                        .iter()
                        .flat_map(|g| {
                            [canon(g.v), canon(g.dx), canon(g.dy), canon(g.dz)]
                        })
                        .collect();
                    (v, t.recycle())
                }
            }
        };
        let d = rt::catch(|| {
            if all_fresh {
                run(
                    &dshape,
                    storage,
                    &mut Default::default(),
                    &mut Default::default(),
                    &mut Default::default(),
                    &mut Default::default(),
                )
            } else {
                run(
                    &dshape,
                    storage,
                    &mut wk.spe,
                    &mut wk.sie,
                    &mut wk.sfe,
                    &mut wk.sge,
                )
            }
        });
        let c = rt::catch(|| {
            run(
                &cshape,
                Default::default(),
                &mut Default::default(),
                &mut Default::default(),
                &mut Default::default(),
                &mut Default::default(),
            )
            .0
        });
        match (d, c) {
            (Ok((d, st)), Ok(c)) => {
                if let (Some(st), false) = (st, all_fresh) {
                    wk.tape_stash.push(st);
                }
                let h = d.iter().fold(11u64, |h, v| mix(h, *v as u64));
                self.st.borrow_mut().log_digest("shape_eval", h);
                if d != c {
                    self.violate10(
                        "shape_eval_result_differs_from_fresh",
                        format!(
                            "kind {kind} n {n}: reused shape-level evaluator gives {d:?}, fresh {c:?}"
                        ),
                    );
                }
            }
            (Err(p), Ok(_)) => self.violate10(
                "shape_eval_panic_only_with_reused_objects",
                format!("kind {kind} n {n}: {p}"),
            ),
            _ => self.rep.count("other.clean_panic", 1),
        }
    }

    fn step(&mut self) {
        self.ops += 1;
        self.rep.steps += 1;
        let nw = self.workers.len() as u32;
        let w = self.ch(|c| c.choose("worker", nw)) as usize;
        if self.slots.is_empty() {
            let np = self.protos.len() as u32;
            let p = self.ch(|c| c.choose("proto", np)) as usize;
            self.new_fn(p);
            return;
        }
        let ns = self.slots.len() as u32;
        // bias to the most recent slot so that chains grow
        let s = if self.ch(|c| c.flag("recent_slot")) {
            ns as usize - 1
        } else {
            self.ch(|c| c.choose("slot", ns)) as usize
        };
        let weights: &[u32] = match self.mode {
            // eval, simplify, new, recycle, clone, move, held, rh, shape-eval,
            // ageing burst
            Mode::C10 => &[10, 5, 2, 2, 1, 1, 2, 3, 4, 1],
            Mode::C04 => &[8, 9, 2, 1, 1, 1, 0, 5, 0, 0],
        };
        let total: u32 = weights.iter().sum();
        let mut r = self.ch(|c| c.choose("op", total));
        let mut op = 0;
        for (i, wt) in weights.iter().enumerate() {
            if r < *wt {
                op = i;
                break;
            }
            r -= wt;
        }
        self.st.borrow_mut().log("op", op as u64, s as u64);
        match op {
            0 => self.op_eval(w, s),
            1 => {
                if self.mode == Mode::C10 && self.ch(|c| c.odds("undecided_trace", 1, 5)) {
                    self.op_simplify_undecided(w, s)
                } else if self.slots[s].trace.is_some() {
                    self.op_simplify(w, s)
                } else {
                    self.op_eval(w, s)
                }
            }
            2 => {
                let np = self.protos.len() as u32;
                let p = self.ch(|c| c.choose("proto", np)) as usize;
                if self.slots.len() >= 8 {
                    self.recycle_slot(w, s);
                }
                self.new_fn(p);
            }
            3 => self.recycle_slot(w, s),
            4 => self.op_clone(w, s),
            5 => {
                let b = self.ch(|c| c.choose("worker_to", nw)) as usize;
                self.op_move_stash(w, b)
            }
            6 => self.op_eval_held(w),
            7 => self.op_render_handle(w, s),
            8 => self.op_shape_eval(w, s),
            _ => self.op_age(w, s),
        }
    }

    /// Ageing burst: the worker's long-lived objects (workspace, evaluators,
    /// recycled storage) go through many more uses than a history has
    /// operations - as a render worker's do - so that anything that counts
    /// uses (generation stamps, high-water marks) crosses its 8- and 16-bit
    /// boundaries.  The burst itself only repeats one call with the same
    /// arguments; a repetition that panics although the first one returned is a
    /// violation, and the operations that follow compare the aged objects with
    /// fresh ones as usual.
    fn op_age(&mut self, w: usize, s: usize) {
        if self.all_fresh {
            return;
        }
        let reps: u32 = match self.ch(|c| c.choose("age_reps", 400)) {
            0 => 65_700,
            1..=100 => 300,
            _ => 20,
        };
        // a long burst only on small functions (cost)
        let reps = if reps > 1000 && self.slots[s].dirty.size() > 60 { 300 } else { reps };
        let what = self.ch(|c| c.choose("age_what", 4));
        let nvars = self.slots[s].dirty.vars().len();
        self.rep.count("op.ageing_burst", 1);
        if reps > 1000 {
            self.rep.count("fault.aged_past_16_bit_use_count", 1);
        } else if reps > 255 {
            self.rep.count("fault.aged_past_8_bit_use_count", 1);
        }
        let fail: Option<(u32, String)> = match what {
            0 => {
                // simplify with the kept workspace, child recycled into the
                // storage of the next round
                let Some((trace, _)) = self.slots[s].trace.clone() else { return };
                let slot = &self.slots[s];
                let wk = &mut self.workers[w];
                let mut storage: F::Storage = wk.fn_stash.pop().unwrap_or_default();
                let mut fail = None;
                for k in 0..reps {
                    let st = std::mem::take(&mut storage);
                    let ws = &mut wk.ws;
                    match rt::catch(|| slot.dirty.simplify(&trace, st, ws)) {
                        Ok(Ok(c)) => storage = c.recycle().unwrap_or_default(),
                        Ok(Err(_)) => break,
                        Err(p) => {
                            wk.ws = Default::default();
                            if k > 0 {
                                fail = Some((k, p));
                            }
                            break;
                        }
                    }
                }
                wk.fn_stash.push(storage);
                fail
            }
            1 => {
                let vars = self.draw_inputs_for(s, nvars);
                let slot = &self.slots[s];
                let wk = &mut self.workers[w];
                let mut fail = None;
                if let Ok(tape) = rt::catch(|| slot.dirty.point_tape(Default::default())) {
                    for k in 0..reps {
                        let ev = &mut wk.pe;
                        if let Err(p) = rt::catch(|| ev_point::<F>(ev, &tape, &vars)) {
                            wk.pe = F::new_point_eval();
                            if k > 0 {
                                fail = Some((k, p));
                            }
                            break;
                        }
                    }
                }
                fail
            }
            2 => {
                let bx = self.draw_box_for(s, nvars);
                let vars: Vec<Interval> =
                    bx.iter().map(|(a, b)| Interval::new(*a, *b)).collect();
                let slot = &self.slots[s];
                let wk = &mut self.workers[w];
                let mut fail = None;
                if let Ok(tape) = rt::catch(|| slot.dirty.interval_tape(Default::default())) {
                    for k in 0..reps {
                        let ev = &mut wk.ie;
                        if let Err(p) = rt::catch(|| ev_interval::<F>(ev, &tape, &vars)) {
                            wk.ie = F::new_interval_eval();
                            if k > 0 {
                                fail = Some((k, p));
                            }
                            break;
                        }
                    }
                }
                fail
            }
            _ => {
                // tape built into the storage recycled from the previous one
                let slot = &self.slots[s];
                let wk = &mut self.workers[w];
                let mut storage: F::TapeStorage = wk.tape_stash.pop().unwrap_or_default();
                let mut fail = None;
                for k in 0..reps.min(3000) {
                    let st = std::mem::take(&mut storage);
                    match rt::catch(|| slot.dirty.float_slice_tape(st)) {
                        Ok(t) => storage = t.recycle().unwrap_or_default(),
                        Err(p) => {
                            if k > 0 {
                                fail = Some((k, p));
                            }
                            break;
                        }
                    }
                }
                wk.tape_stash.push(storage);
                fail
            }
        };
        if let Some((k, p)) = fail {
            self.violate10(
                "aged_object_panics",
                format!(
                    "repetition {k} of the same call (kind {what}) on the worker's kept objects panicked although the first one returned: {p}"
                ),
            );
        }
    }
}

fn run_world<F: Function + MathFunction + Clone + Cross>(
    st: &Shared,
    rep: &mut RunReport,
    mode: Mode,
    fgs: &[FuncGen],
) {
    let mut protos = vec![];
    for fg in fgs {
        let mut ctx = Context::new();
        let vars: Vec<Var> = (0..fg.nvars).map(|_| Var::new()).collect();
        let nodes = fg.dag.lower(&mut ctx, &vars);
        let outs: Vec<Node> = fg.outputs.iter().map(|o| nodes[*o]).collect();
        protos.push(Proto {
            reach: fg.dag.reachable(&fg.outputs),
            dag: fg.dag.clone(),
            vars: vars.clone(),
            ctx,
            nodes: outs,
            describe: format!(
                "outputs={} [{}]",
                fg.outputs.len(),
                fg.outputs
                    .iter()
                    .map(|o| fg.dag.describe(*o))
                    .collect::<Vec<_>>()
                    .join(" ; ")
            ),
        });
    }
    let (nworkers, nops, nops_at, all_fresh, page) = {
        let ch = &mut st.borrow_mut().ch;
        let nworkers = 1 + ch.choose("nworkers", 3) as usize;
        let nops_at = ch.mark();
        let nops = 1 + ch.choose("nops", 60) as u64;
        // fault-free control configuration: one run in eight
        let all_fresh = ch.choose("all_fresh", 8) == 7;
        let page = match ch.choose("page", 3) {
            0 => None,
            1 => Some(256),
            _ => Some(64),
        };
        (nworkers, nops, nops_at, all_fresh, page)
    };
    st.borrow_mut().page = page;
    if page.is_some() {
        rep.count("fault.small_mmap_granularity", 1);
    }
    if all_fresh {
        rep.count("sched.all_fresh_control_run", 1);
    }
    rep.sample = format!(
        "workers={nworkers} ops={nops} all_fresh={all_fresh} page={page:?} fns=[{}]",
        protos
            .iter()
            .map(|p| p.describe.clone())
            .collect::<Vec<_>>()
            .join(" | ")
    );
    rt::install(st);
    {
        let mut world = World::<F> {
            st,
            rep,
            mode,
            protos,
            slots: vec![],
            workers: (0..nworkers).map(|_| Worker::new()).collect(),
            cross: CrossStash::default(),
            all_fresh,
            ops: 0,
        };
        for _ in 0..nops {
            st.borrow_mut().ch.span_begin();
            world.step();
            st.borrow_mut().ch.span_end(nops_at);
            if !world.rep.violations.is_empty() {
                break;
            }
        }
    }
    rt::uninstall();
}

fn run(st: &Shared, mode: Mode, tier: Tier) -> RunReport {
    let mut rep = RunReport::default();
    let (backend, fgs) = {
        let ch = &mut st.borrow_mut().ch;
        let backend = ch.choose("backend", 6);
        let nf_at = ch.mark();
        let nf = 2 + ch.choose("nfuncs", 4) as usize;
        let fgs: Vec<FuncGen> = (0..nf)
            .map(|_| {
                ch.span_begin();
                // the thorough tier also draws 200-clause functions (spills
                // for every register budget, long choice arrays)
                // (the quick tier draws functions beyond 128 and 256 clauses
                // too, less often: size thresholds of caches and fast paths -
                // seeded change C04-w keeps a cache entry only for tapes of
                // 128 clauses or more)
                let max_ops = if tier == Tier::Thorough {
                    *ch.pick("fn_size", &[6usize, 12, 30, 60, 120, 200, 320])
                } else {
                    *ch.pick("fn_size", &[6usize, 12, 30, 60, 120, 12, 30, 200, 320])
                };
                let mut f = gen_func(ch, max_ops);
                // ballast: a small function (few choices, so that traces
                // which prune nothing and simplifications that come out "not
                // shorter" stay common) made *long* by a choice-free chain of
                // 130 or 260 operations hanging off one of its inputs and added
                // to its first output (added after seeded change C04-w: size
                // thresholds of caches and fast paths are reached by small-
                // function behaviour too)
                if max_ops <= 30 && ch.odds("fn_ballast", 1, 5) {
                    use crate::gen_::{Bin, Ex};
                    let leaf = f.dag.n.iter().position(|e| {
                        matches!(e, Ex::X | Ex::Y | Ex::Z | Ex::V(_))
                    });
                    if let Some(leaf) = leaf {
                        let links = *ch.pick("fn_ballast_links", &[65usize, 130]);
                        let half = f.dag.c(0.5);
                        let quarter = f.dag.c(0.25);
                        let mut t = leaf;
                        for _ in 0..links {
                            let m = f.dag.b(Bin::Mul, t, half);
                            t = f.dag.b(Bin::Add, m, quarter);
                        }
                        f.outputs[0] = f.dag.b(Bin::Add, f.outputs[0], t);
                    }
                }
                ch.span_end(nf_at);
                f
            })
            .collect();
        // near-twins: the same program except for one constant that differs
        // by the sign of a zero or by one unit in the last place.  Anything
        // that recognises "the same tape as last time" (to skip work on
        // recycled storage or in a kept evaluator) must tell them apart.
        let mut fgs: Vec<FuncGen> = fgs;
        if ch.odds("twin_function", 1, 4) {
            let k = ch.choose("twin_of", fgs.len() as u32) as usize;
            let mut t = FuncGen {
                dag: fgs[k].dag.clone(),
                outputs: fgs[k].outputs.clone(),
                nvars: fgs[k].nvars,
            };
            let consts: Vec<usize> = t
                .dag
                .n
                .iter()
                .enumerate()
                .filter(|(_, e)| matches!(e, crate::gen_::Ex::C(_)))
                .map(|(i, _)| i)
                .collect();
            if !consts.is_empty() {
                let i = consts[ch.choose("twin_const", consts.len() as u32) as usize];
                if let crate::gen_::Ex::C(c) = t.dag.n[i] {
                    let flip_zero = c == 0.0 || ch.flag("twin_make_zero");
                    t.dag.n[i] = crate::gen_::Ex::C(if flip_zero {
                        if c == 0.0 { -c } else { -0.0 }
                    } else {
                        f32::from_bits(c.to_bits() ^ 1)
                    });
                    if flip_zero && c != 0.0 {
                        // the original gets the other zero
                        fgs[k].dag.n[i] = crate::gen_::Ex::C(0.0);
                    }
                }
                fgs.push(t);
            }
        }
        (backend, fgs)
    };
    match backend {
        0 => run_world::<GenericVmFunction<3>>(st, &mut rep, mode, &fgs),
        1 => run_world::<GenericVmFunction<8>>(st, &mut rep, mode, &fgs),
        2 => run_world::<GenericVmFunction<255>>(st, &mut rep, mode, &fgs),
        _ => run_world::<JitFunction>(st, &mut rep, mode, &fgs),
    }
    // signature of the history: op kinds and provenance are in the log
    let sig = st.borrow().log_hash;
    if rep.counters.keys().any(|k| k.starts_with("fault.")) {
        rep.sigs.push(sig);
    }
    let mut rep = rep.finish(st);
    rep.sample = format!("backend={backend} {}", rep.sample);
    rep
}

pub fn run_c10(st: &Shared, tier: Tier) -> RunReport {
    run(st, Mode::C10, tier)
}

pub fn run_c04(st: &Shared, tier: Tier) -> RunReport {
    run(st, Mode::C04, tier)
}
